// Prints the public schema queries of pdl-compiler (analyzer::Schema) for one or more PDL
// files as JSON lines: the size annotations every backend's length guards rely on (C16).
use pdl_compiler::analyzer::{self, Size};
use pdl_compiler::{ast, parser};

fn sz(s: Size) -> String {
    match s {
        Size::Static(n) => format!("{}", n),
        Size::Dynamic => "\"dynamic\"".to_string(),
        Size::Unknown => "\"unknown\"".to_string(),
    }
}

fn kind(f: &ast::Field) -> &'static str {
    match &f.desc {
        ast::FieldDesc::Checksum { .. } => "checksum_start",
        ast::FieldDesc::Padding { .. } => "padding",
        ast::FieldDesc::Size { .. } => "size",
        ast::FieldDesc::Count { .. } => "count",
        ast::FieldDesc::ElementSize { .. } => "elemsize",
        ast::FieldDesc::Body => "body",
        ast::FieldDesc::Payload { .. } => "payload",
        ast::FieldDesc::FixedScalar { .. } => "fixed_scalar",
        ast::FieldDesc::FixedEnum { .. } => "fixed_enum",
        ast::FieldDesc::Reserved { .. } => "reserved",
        ast::FieldDesc::Array { .. } => "array",
        ast::FieldDesc::Scalar { .. } => "scalar",
        ast::FieldDesc::Flag { .. } => "flag",
        ast::FieldDesc::Typedef { .. } => "typedef",
        ast::FieldDesc::Group { .. } => "group",
    }
}

fn parse_size(k: &str, n: usize) -> Size {
    match k {
        "static" => Size::Static(n),
        "dynamic" => Size::Dynamic,
        _ => Size::Unknown,
    }
}

fn main() {
    let args: Vec<String> = std::env::args().collect();
    if args.len() > 2 && args[1] == "--srcloc" {
        // replay of a C12 counterexample: --srcloc <offset> <line starts...>
        let offset: usize = args[2].parse().unwrap();
        let starts: Vec<usize> = args[3..].iter().map(|s| s.parse().unwrap()).collect();
        let loc = ast::SourceLocation::new(offset, &starts);
        println!("{} {} {}", loc.offset, loc.line, loc.column);
        return;
    }
    if args.len() > 6 && args[1] == "--size" {
        // replay of a size-lattice counterexample: --size <kind a> <n a> <kind b> <n b> <m>
        let a = parse_size(&args[2], args[3].parse().unwrap());
        let b = parse_size(&args[4], args[5].parse().unwrap());
        let m: usize = args[6].parse().unwrap();
        println!("{} {} {}", sz(a + b), sz(a * b), sz(a * m));
        return;
    }
    for path in std::env::args().skip(1) {
        let mut sources = ast::SourceDatabase::new();
        let file = match parser::parse_file(&mut sources, &path) {
            Ok(f) => f,
            Err(_) => {
                println!("{{\"file\": {:?}, \"error\": \"parse\"}}", path);
                continue;
            }
        };
        let file = match analyzer::analyze(&file) {
            Ok(f) => f,
            Err(_) => {
                println!("{{\"file\": {:?}, \"error\": \"analyze\"}}", path);
                continue;
            }
        };
        let scope = analyzer::Scope::new(&file).unwrap();
        let schema = analyzer::Schema::new(&file);
        let mut decls = vec![];
        for decl in &file.declarations {
            let id = match decl.id() {
                Some(id) => id,
                None => continue,
            };
            if !matches!(decl.desc, ast::DeclDesc::Packet { .. } | ast::DeclDesc::Struct { .. }) {
                continue;
            }
            let mut fields = vec![];
            for f in decl.fields() {
                let es = match &f.desc {
                    ast::FieldDesc::Array { .. } => format!(
                        ", \"element_size\": \"{:?}\", \"array_size\": \"{:?}\"",
                        analyzer::element_size(&scope, &schema, decl, f),
                        analyzer::array_size(decl, f)
                    ),
                    _ => String::new(),
                };
                fields.push(format!(
                    "{{\"kind\": \"{}\", \"id\": {:?}, \"optional\": {}, \"size\": {}, \"padded\": {}{}}}",
                    kind(f),
                    f.id().unwrap_or(""),
                    f.cond.is_some(),
                    sz(schema.field_size(f.key)),
                    schema.padded_size(f.key).map(|n| n.to_string()).unwrap_or("null".to_string()),
                    es
                ));
            }
            decls.push(format!(
                "{{\"id\": {:?}, \"decl_size\": {}, \"parent_size\": {}, \"payload_size\": {}, \"total_size\": {}, \"fields\": [{}]}}",
                id,
                sz(schema.decl_size(decl.key)),
                sz(schema.parent_size(decl.key)),
                sz(schema.payload_size(decl.key)),
                sz(schema.total_size(decl.key)),
                fields.join(", ")
            ));
        }
        println!("{{\"file\": {:?}, \"decls\": [{}]}}", path, decls.join(", "));
    }
}
