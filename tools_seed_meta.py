#!/usr/bin/env python3
"""write seeded/<id>/meta.json from the table below + the evaluation logs of tools_try_all.sh"""
import json
import os
import re
import sys

HERE = os.path.dirname(os.path.abspath(__file__))

SEEDS = {
    'C01-1': ('C01', 'rust decoder: padded arrays with a count/size field lose their length guard',
              'a padded array of scalars/enums whose count/size field can announce more octets than the padding, and such an input'),
    'C01-2': ('C01', 'rust decoder: static array of exactly one element guards on the count instead of the octet size',
              'x: 32[1] (one element wider than 8 bits) and an input truncated inside the element'),
    'C02-1': ('C02', 'rust decoder: optional-field length guard sized after the backing integer',
              'an optional scalar/enum of width 24/40/48/56, present, last in the input'),
    'C02-2': ('C02', 'rust encoder: struct-typed field sized with decl_size instead of total_size',
              'a struct with its own payload used as a field inside a child of a size-delimited parent, non-empty inner payload'),
    'C03-1': ('C03', 'rust encoder: array element size ignores a derived struct\'s inherited fields',
              'an array of a derived struct followed by _padding_ (or inside a child of a sized parent), non-empty'),
    'C03-2': ('C03', 'rust encoder: optional enum written with its backing integer width',
              'an optional enum of width 24/40/48/56 that is present'),
    'C04-1': ('C04', 'rust decoder: optional-field length guard uses the Rust integer size (same site as C02-1)',
              'an optional field of width 24/40/48/56, present and last in the input'),
    'C04-2': ('C04', 'rust decoder: payload end computed from the array size, ignoring its padding',
              'unsized payload followed by a static-count array followed by a larger _padding_'),
    'C05-1': ('C05', 'rust encoder: _elementsize_ overflow guard dropped for 8/16/32-bit fields',
              'element size field of exactly 8/16/32 bits and elements of >= 2^width octets (>= 256 octets)'),
    'C05-2': ('C05', 'rust encoder: encoded_len() of an optional enum uses the backing-type size',
              'an optional enum of width 24/40/48/56 that is present'),
    'C13-1': ('C13', 'python: size property ignores padding on a statically sized array',
              'a constant-count array followed by _padding_'),
    'C13-2': ('C13', 'python: constraints on skipped alias parents are no longer checked',
              'three-level hierarchy with a constrained alias in the middle and an input of another branch'),
    'C15-1': ('C15', 'rust: TryFrom of open incomplete enums of width 24/40/48/56 accepts integers >= 2^w',
              'open, incomplete enum whose width is a whole number of octets but not 8/16/32/64; input >= 2^w'),
    'C15-2': ('C15', 'python: enum is open only if the default tag is the LAST tag',
              'an open enum whose default tag is not the last entry, input outside tags and ranges'),
    'C18-1': ('C18', 'runtime: decode_mut empties the cursor on error', 'any failing decode followed by reuse of the cursor'),
    'C18-2': ('C18', 'runtime: decode_full rejects the empty input early', 'the empty byte string and a declaration of minimum size 0'),
    'C12-1': ('C12', 'parser: CRLF counted as two line starts (line numbers doubled)', 'a source containing \\r before the inspected node'),
    'C12-2': ('C12', 'parser: keyword reservation without a word boundary', 'an identifier beginning with a keyword spelling, e.g. enumx'),
    'C07-1': ('C07', 'rust decoder: optional scalar guard from the backing width (same site as C04-1, scalar branch only)',
              'optional scalar of width 24/40/48/56, present, last'),
    'C07-2': ('C07', 'python serializer: grand-parent constraints dropped in __post_init__',
              'inheritance chain of >= 3 levels with constraints on >= 2 of them, grand-child serialized by python'),
    'C16-1': ('C16', 'analyzer: padded fixed-count arrays lose their padding in decl_size', '_padding_ after an array with fixed count and fixed element width'),
    'C16-2': ('C16', 'analyzer: Size arithmetic lets Dynamic absorb Unknown', 'an aggregate combining a delimited and an undelimited variable-size part'),
    'C17-1': ('C17', 'analyzer: endianness lost when declarations are reordered (forward references)',
              'a big_endian_packets description with at least one forward reference and a multi-byte field'),
    'C17-2': ('C17', 'rust encoder: truncated optional scalars always written big-endian',
              'little-endian file, optional scalar of 24/40/48/56 bits, present'),
    'C06-1': ('C06', 'rust specialize: size discriminant ignores a child\'s own payload',
              'two siblings with equal constraints differing only by constant size plus another child with its own payload'),
    'C06-2': ('C06', 'rust: scalar constraint literal truncated to 32 bits on the conversion side',
              'a scalar constraint value >= 2^32 on a field wider than 32 bits'),
}


NOTES = {
    'C02-1': 'evaluated at commit c30ce70: 2 of the reported violations were the 24-bit array element finding that the same run '
             'would also report on the unchanged tree (later listed as KF-C05-array-element-not-range-checked); 3 are due to the seed',
    'C02-2': 'evaluated at commit c30ce70: 2 of the 3 reported violations were the 24-bit array element finding (see C02-1); 1 is due to the seed',
    'C05-1': 'MISSED: needs elements of >= 256 octets behind an 8-bit _elementsize_ field; the value bound is K <= 3 elements of a few '
             'octets and no windowed-length harness exists for element-size fields (element-size arrays are heavy: > 25 min per harness)',
    'C06-1': 'MISSED: the specialize harness of a family with a size discriminant (payload.len() in the match tuple) does not finish '
             'under CBMC (180 s cap in the quick tier, also not within 1500 s when run alone); reported as UNDECIDED, never as held',
    'C12-1': 'MISSED BY SCOPE: line_starts computation in parse_inline goes through the parser; only SourceLocation::new is claimed',
    'C12-2': 'MISSED BY SCOPE: grammar change; no clause through the pest grammar is claimed (DESIGN.md §4 C12, §5)',
    'C07-2': 'first missed by C07 (its Python side only covered descriptions selected on the Rust side); caught after the Python '
             'side was extended to always include the inheritance family; C13 caught it from the start',
    'C15-1': 'first evaluation did not reproduce natively because the replay runner generated decode arms for enum names; fixed',
    'C18-1': 'the solver first returned the degenerate empty input, on which the violated law is not observable natively; the law now '
             'ignores the pointer of an empty slice so that a non-empty counterexample is produced',
}


def main():
    evaldir = sys.argv[1] if len(sys.argv) > 1 else None     # directory holding the worktrees' verif_<check>.log copies
    for sid, (prop, what, needs) in SEEDS.items():
        d = os.path.join(HERE, 'seeded', sid)
        if not os.path.isdir(d):
            continue
        p, k = sid.split('-')
        runs = {}
        logdir = f'/tmp/wt_{p}/SEEDS/{k}'
        for fn in sorted(os.listdir(logdir)) if os.path.isdir(logdir) else []:
            m = re.match(r'verif_(C\d\d)\.log', fn)
            if not m:
                continue
            text = open(os.path.join(logdir, fn)).read()
            viol = re.findall(r'^VIOLATION property=(\S+)', text, re.M)
            runs[m.group(1)] = {'cmd': f'PDL_REPO=<worktree with patch applied> ./check {m.group(1)} --tier quick',
                                'violations_reported': len(viol),
                                'inconclusive_lines': len(re.findall(r'^INCONCLUSIVE', text, re.M)),
                                'undecided_lines': len(re.findall(r'^UNDECIDED', text, re.M)),
                                'detected': bool(viol)}
        meta = {
            'id': sid,
            'breaks_property': prop,
            'change': what,
            'needs_to_manifest': needs,
            'files': {'patch': 'patch.diff', 'demonstration': 'demo/run.sh <repo root> (exit 0 = property holds on the demo input)',
                      'author_notes': 'AGENT_README.md'},
            'written_by': 'fresh sub-agent given only the property text and a scratch worktree',
            'confirmed_by_me': {'applies_cleanly': True, 'cargo_build_workspace': 'ok',
                                'cargo_test_workspace_with_change': '203 passed, 0 failed',
                                'demo_with_change': 'fails (exit 1)', 'demo_without_change': 'passes (exit 0)',
                                'how': 'scratch worktree under /tmp, patch applied with git apply, reverted afterwards'},
            'checks_run_against_it': runs,
        }
        if sid in NOTES:
            meta['note'] = NOTES[sid]
        with open(os.path.join(d, 'meta.json'), 'w') as f:
            json.dump(meta, f, indent=1)
    print('meta written')


if __name__ == '__main__':
    main()
