#!/bin/bash
# usage: tools_try_seed.sh <worktree> <seed dir> <check ids...>
# applies the seed's patch in the scratch worktree, runs the given quick checks against it
# (PDL_REPO override: /repo itself is not touched), reverts the patch.
WT=$1; SEED=$2; shift 2
cd "$(dirname "$0")"
git -C $WT checkout -q -- . && git -C $WT apply $SEED/patch.diff || { echo "patch failed"; exit 3; }
for c in "$@"; do
  echo "=== $c on $SEED"
  PDL_REPO=$WT timeout 3600 ./check $c --tier quick > $SEED/verif_$c.log 2>&1
  echo "rc=$? $(grep -c '^VIOLATION' $SEED/verif_$c.log) violations; $(grep -c '^INCONCLUSIVE' $SEED/verif_$c.log) inconclusive; $(grep -c '^KNOWN' $SEED/verif_$c.log) known"
done
git -C $WT checkout -q -- .
