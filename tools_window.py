"""dev tool: run only the C05 windowed-length harnesses (thorough-tier part) — python3-vt -m tools_window [CW SW EW]
honours PDL_REPO like ./check; prints verdicts; writes no evidence."""
import sys, json
from vlib import c05
from vlib.common import Outcome
out = Outcome('C05'); cov = {}
c05.windowed(out, cov, only=set(sys.argv[1:]) or None)
print(json.dumps(cov, indent=1))
sys.exit(out.finish())
