// Heap-free support code shared by every generated harness module (E-KANI).
// Nothing in here comes from google/pdl.
#![allow(dead_code, unused)]

use bytes::buf::UninitSlice;
use bytes::BufMut;

/// Fixed-capacity vector used by the reference model (no heap).
#[derive(Clone, Copy)]
pub struct RVec<T: Copy, const N: usize> {
    pub len: usize,
    pub items: [T; N],
}

impl<T: Copy, const N: usize> RVec<T, N> {
    pub fn new(fill: T) -> Self {
        RVec { len: 0, items: [fill; N] }
    }
    /// false when the capacity is exhausted (the caller reports Fault::Cap)
    pub fn push(&mut self, x: T) -> bool {
        if self.len >= N {
            return false;
        }
        self.items[self.len] = x;
        self.len += 1;
        true
    }
}

#[derive(Clone, Copy)]
pub struct ROpt<T: Copy> {
    pub some: bool,
    pub v: T,
}

/// Why the reference semantics reject an input.
#[derive(Clone, Copy, PartialEq, Eq, Debug)]
pub enum Fault {
    Length,
    Trailing,
    Fixed,
    Enum,
    ArraySize,
    Constraint,
    TrailingInArray,
    /// not a verdict: the reference ran out of its fixed capacity (outside the bound)
    Cap,
}

/// Faults after which decoding can continue (the structure is still known).
#[derive(Clone, Copy)]
pub struct Faults {
    pub first: Fault,
    pub count: u32,
}

impl Faults {
    pub fn new() -> Self {
        Faults { first: Fault::Cap, count: 0 }
    }
    pub fn soft(&mut self, f: Fault) {
        if self.count == 0 {
            self.first = f;
        }
        self.count += 1;
    }
}

pub fn fault_of(e: &pdl_runtime::DecodeError) -> Fault {
    use pdl_runtime::DecodeError::*;
    match e {
        LengthError { .. } => Fault::Length,
        TrailingBytesError => Fault::Trailing,
        FixedValueError { .. } => Fault::Fixed,
        EnumValueError { .. } => Fault::Enum,
        ArraySizeError { .. } => Fault::ArraySize,
        ConstraintValueError { .. } => Fault::Constraint,
        TrailingBytesInArray { .. } => Fault::TrailingInArray,
        UnwrapError => Fault::Cap,
    }
}

/// Why the reference says a value cannot be encoded.
#[derive(Clone, Copy, PartialEq, Eq, Debug)]
pub enum EFault {
    Scalar,
    Size,
    Count,
    ElementSize,
    Condition,
}

pub fn efault_of(e: &pdl_runtime::EncodeError) -> EFault {
    use pdl_runtime::EncodeError::*;
    match e {
        InvalidScalarValue { .. } => EFault::Scalar,
        SizeOverflow { .. } => EFault::Size,
        CountOverflow { .. } => EFault::Count,
        InvalidArrayElementSize { .. } => EFault::ElementSize,
        InconsistentConditionValue { .. } => EFault::Condition,
    }
}

#[derive(Clone, Copy)]
pub struct EFaults {
    pub first: EFault,
    pub count: u32,
}

impl EFaults {
    pub fn new() -> Self {
        EFaults { first: EFault::Scalar, count: 0 }
    }
    pub fn add(&mut self, f: EFault) {
        if self.count == 0 {
            self.first = f;
        }
        self.count += 1;
    }
}

/// Heap-free output buffer: `encode` is generic over `impl BufMut`.
pub struct ArrBuf<const N: usize> {
    pub buf: [u8; N],
    pub len: usize,
}

impl<const N: usize> ArrBuf<N> {
    pub fn new() -> Self {
        ArrBuf { buf: [0u8; N], len: 0 }
    }
    pub fn bytes(&self) -> &[u8] {
        &self.buf[..self.len]
    }
}

unsafe impl<const N: usize> BufMut for ArrBuf<N> {
    fn remaining_mut(&self) -> usize {
        N - self.len
    }
    unsafe fn advance_mut(&mut self, cnt: usize) {
        self.len += cnt;
    }
    fn chunk_mut(&mut self) -> &mut UninitSlice {
        UninitSlice::new(&mut self.buf[self.len..])
    }
}

/// Reference output buffer (plain array, no `bytes`).
#[derive(Clone, Copy)]
pub struct RBuf<const N: usize> {
    pub buf: [u8; N],
    pub len: usize,
    pub overflow: bool,
}

impl<const N: usize> RBuf<N> {
    pub fn new() -> Self {
        RBuf { buf: [0u8; N], len: 0, overflow: false }
    }
    pub fn put(&mut self, b: u8) {
        if self.len < N {
            self.buf[self.len] = b;
            self.len += 1;
        } else {
            self.overflow = true;
        }
    }
    /// append a slice (memcpy, no loop)
    pub fn extend(&mut self, src: &[u8]) {
        let n = src.len();
        if n <= N - self.len {
            self.buf[self.len..self.len + n].copy_from_slice(src);
            self.len += n;
        } else {
            self.overflow = true;
        }
    }
    /// append `n` zero octets: the buffer is zero-initialised and only written below `len`
    pub fn zeros(&mut self, n: usize) {
        if n <= N - self.len {
            self.len += n;
        } else {
            self.overflow = true;
        }
    }
}

pub fn bytes_eq(a: &[u8], b: &[u8]) -> bool {
    if a.len() != b.len() {
        return false;
    }
    let mut i = 0;
    while i < a.len() {
        if a[i] != b[i] {
            return false;
        }
        i += 1;
    }
    true
}

/// Source of the words a reference value is drawn from: `kani::any()` in a harness,
/// the concrete values of a counterexample in the native replay runner.
pub trait Src {
    fn word(&mut self) -> u64;
}

#[cfg(kani)]
pub struct KaniSrc;

#[cfg(kani)]
impl Src for KaniSrc {
    fn word(&mut self) -> u64 {
        kani::any()
    }
}

pub struct VecSrc<'a> {
    pub words: &'a [u64],
    pub i: usize,
}

impl<'a> Src for VecSrc<'a> {
    fn word(&mut self) -> u64 {
        let w = if self.i < self.words.len() { self.words[self.i] } else { 0 };
        self.i += 1;
        w
    }
}

/// equality of two DecodeErrors without comparing the formatted `actual` string of
/// ConstraintValueError (String == is a memcmp loop under CBMC)
pub fn derr_eq(a: &pdl_runtime::DecodeError, b: &pdl_runtime::DecodeError) -> bool {
    use pdl_runtime::DecodeError::*;
    match (a, b) {
        (UnwrapError, UnwrapError) => true,
        (FixedValueError { expected: e1, actual: a1 }, FixedValueError { expected: e2, actual: a2 }) => e1 == e2 && a1 == a2,
        (LengthError { wanted: w1, got: g1, .. }, LengthError { wanted: w2, got: g2, .. }) => w1 == w2 && g1 == g2,
        (ArraySizeError { array: x1, element: y1 }, ArraySizeError { array: x2, element: y2 }) => x1 == x2 && y1 == y2,
        (EnumValueError { value: v1, .. }, EnumValueError { value: v2, .. }) => v1 == v2,
        (ConstraintValueError { .. }, ConstraintValueError { .. }) => true,
        (TrailingBytesError, TrailingBytesError) => true,
        (TrailingBytesInArray { .. }, TrailingBytesInArray { .. }) => true,
        _ => false,
    }
}

pub fn eerr_eq(a: &pdl_runtime::EncodeError, b: &pdl_runtime::EncodeError) -> bool {
    use pdl_runtime::EncodeError::*;
    match (a, b) {
        (SizeOverflow { size: s1, maximum_size: m1, .. }, SizeOverflow { size: s2, maximum_size: m2, .. }) => s1 == s2 && m1 == m2,
        (CountOverflow { count: s1, maximum_count: m1, .. }, CountOverflow { count: s2, maximum_count: m2, .. }) => s1 == s2 && m1 == m2,
        (InvalidScalarValue { value: s1, maximum_value: m1, .. }, InvalidScalarValue { value: s2, maximum_value: m2, .. }) => s1 == s2 && m1 == m2,
        (InvalidArrayElementSize { size: s1, expected_size: m1, element_index: i1, .. }, InvalidArrayElementSize { size: s2, expected_size: m2, element_index: i2, .. }) => s1 == s2 && m1 == m2 && i1 == i2,
        (InconsistentConditionValue { .. }, InconsistentConditionValue { .. }) => true,
        _ => false,
    }
}
