// E-KANI harnesses over pure integer kernels of pdl-compiler, through its public API.
#![allow(warnings)]
use pdl_compiler::analyzer::Size;
use pdl_compiler::ast::SourceLocation;

#[cfg(kani)]
mod h {
    use super::*;

    /// C12 (one clause): line/column consistent with the byte offset.
    /// For every strictly increasing table of line starts beginning at 0 (<= N entries) and every offset,
    /// `new` returns the last line whose start <= offset and column == offset - start.
    #[kani::proof]
    #[kani::unwind(10)]
    fn c12_source_location_new() {
        const N: usize = 8;
        let raw: [usize; N] = kani::any();
        let n: usize = kani::any();
        kani::assume(n >= 1 && n <= N);
        kani::assume(raw[0] == 0);
        let mut i = 1;
        while i < N {
            if i < n {
                kani::assume(raw[i] > raw[i - 1]);
            }
            i += 1;
        }
        let offset: usize = kani::any();
        let loc = SourceLocation::new(offset, &raw[..n]);
        assert!(loc.offset == offset, "C12: offset not preserved");
        assert!(loc.line < n, "C12: line outside the table");
        assert!(raw[loc.line] <= offset, "C12: the reported line starts after the offset");
        assert!(loc.line + 1 == n || raw[loc.line + 1] > offset, "C12: a later line also starts at or before the offset");
        assert!(loc.column == offset - raw[loc.line], "C12: column is not offset - line start");
        kani::cover!(loc.line > 0 && loc.column > 0, "accepting path");
    }

    #[kani::proof]
    #[kani::unwind(3)]
    fn c12_source_location_empty_table() {
        let offset: usize = kani::any();
        let loc = SourceLocation::new(offset, &[]);
        assert!(loc.offset == offset && loc.line == 0 && loc.column == offset, "C12: empty line table");
        kani::cover!(true, "accepting path");
    }

    fn any_size() -> Size {
        let k: u8 = kani::any();
        let n: usize = kani::any();
        // sizes of real descriptions are far below 2^31 bits; usize overflow of Static sizes is outside the claim
        kani::assume(n < (1usize << 31));
        match k % 3 {
            0 => Size::Static(n),
            1 => Size::Dynamic,
            _ => Size::Unknown,
        }
    }

    /// C16 kernel: the size lattice (Unknown absorbs, then Dynamic, Static adds / multiplies)
    #[kani::proof]
    fn c16_size_algebra() {
        let a = any_size();
        let b = any_size();
        let m: usize = kani::any();
        kani::assume(m < (1usize << 31));
        let s = a + b;
        let p = a * b;
        let q = a * m;
        match (a, b) {
            (Size::Unknown, _) | (_, Size::Unknown) => {
                assert!(s == Size::Unknown && p == Size::Unknown, "C16: Unknown does not absorb");
            }
            (Size::Dynamic, _) | (_, Size::Dynamic) => {
                assert!(s == Size::Dynamic && p == Size::Dynamic, "C16: Dynamic does not absorb Static");
            }
            (Size::Static(x), Size::Static(y)) => {
                assert!(s == Size::Static(x + y), "C16: Static + Static");
                assert!(p == Size::Static(x * y), "C16: Static * Static");
            }
        }
        match a {
            Size::Static(x) => assert!(q == Size::Static(x * m) && a.static_() == Some(x), "C16: Static * usize"),
            Size::Dynamic => assert!(q == Size::Dynamic && a.static_() == None, "C16: Dynamic * usize"),
            Size::Unknown => assert!(q == Size::Unknown && a.static_() == None, "C16: Unknown * usize"),
        }
        kani::cover!(true, "accepting path");
    }
}
