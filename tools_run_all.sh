#!/bin/bash
# run every quick check once, sequentially; print exit code and wall time
cd "$(dirname "$0")"
for c in C12 C15 C13 C01 C04 C03 C05 C02 C06 C16 C17 C18 C07; do
  s=$(date +%s)
  ./check $c --tier ${1:-quick} > /tmp/runall_$c.log 2>&1
  rc=$?
  e=$(date +%s)
  echo "$c rc=$rc wall=$((e-s))s viol=$(grep -c '^VIOLATION' /tmp/runall_$c.log) inc=$(grep -c '^INCONCLUSIVE' /tmp/runall_$c.log) known=$(grep -c '^KNOWN' /tmp/runall_$c.log)"
done
