"""Validate the reference model against the repo's canonical vectors
(tests/canonical/{le,be}_test_vectors.json; not part of the pinned suite)."""
from __future__ import annotations

import json
import os
import re
import sys

from . import model as M
from .build import REPO
from .ref import Model, Reject, Unsupported

CANON = os.path.join(REPO, 'pdl-compiler', 'tests', 'canonical')

ERRMAP = {'LengthError': {'length'}, 'TrailingBytesError': {'trailing'}, 'EnumValueError': {'enum'},
          'FixedValueError': {'fixed'}, 'ArraySizeError': {'array_size'}, 'ConstraintValueError': {'constraint'}}


def canonical_files():
    le = open(os.path.join(CANON, 'le_test_file.pdl')).read()
    be = re.sub(r'// Start: little_endian_only.*?// End: little_endian_only', '', le, flags=re.S)
    be = be.replace('little_endian_packets', 'big_endian_packets')
    return le, be


def _norm(v):
    if isinstance(v, dict):
        return {k: _norm(x) for k, x in v.items()}
    if isinstance(v, (list, tuple, bytes, bytearray)):
        return [_norm(x) for x in v]
    return v


def _match(got, want):
    """want: json object (may omit fields)"""
    if isinstance(want, dict):
        return all(k in got and _match(got[k], w) for k, w in want.items())
    if isinstance(want, list):
        return len(got) == len(want) and all(_match(g, w) for g, w in zip(got, want))
    return got == want


def run(verbose=False):
    le, be = canonical_files()
    stats = {'decode_ok': 0, 'encode_ok': 0, 'reject_ok': 0, 'skipped': 0, 'bad': []}
    for text, vec in ((le, 'le_test_vectors.json'), (be, 'be_test_vectors.json')):
        f = M.parse_pdl(text, vec)
        mdl = Model(f)
        vectors = json.load(open(os.path.join(CANON, vec)))
        for item in vectors:
            for t in item['tests']:
                pkt = t.get('packet', item['packet'])
                b = bytes.fromhex(t['packed'])
                try:
                    if 'expected_error' in t:
                        try:
                            mdl.decode(item['packet'], b)
                            stats['bad'].append((vec, pkt, t['packed'], 'accepted, expected ' + t['expected_error']))
                        except Reject as e:
                            if e.fault in ERRMAP.get(t['expected_error'], {e.fault}):
                                stats['reject_ok'] += 1
                            else:
                                stats['bad'].append((vec, pkt, t['packed'], f'{e.fault} vs {t["expected_error"]}'))
                        continue
                    got = _norm(mdl.decode(pkt, b))
                    if not _match(got, t['unpacked']):
                        stats['bad'].append((vec, pkt, t['packed'], f'decode {got} != {t["unpacked"]}'))
                    else:
                        stats['decode_ok'] += 1
                    enc = bytes(mdl.encode(pkt, got))
                    if enc != b:
                        stats['bad'].append((vec, pkt, t['packed'], f'encode {enc.hex()}'))
                    else:
                        stats['encode_ok'] += 1
                except Unsupported:
                    stats['skipped'] += 1
    return stats


if __name__ == '__main__':
    s = run()
    bad = s.pop('bad')
    print(s)
    for b in bad[:40]:
        print('BAD', b)
    sys.exit(1 if bad else 0)
