"""C13 — Python backend: conformance, round trip, only DecodeError on bad input."""
from __future__ import annotations

import time

from . import corpus, pyrun, pysym as S
from .common import Outcome, write_evidence, seed_from_env, log

PROP = 'C13'


def summarize(results, outcome: Outcome, prop=PROP, dedupe=True):
    cov = {'programs': 0, 'types': 0, 'paths': 0, 'queries': 0, 'solver_s': 0.0, 'accepting_paths': 0,
           'rejecting_paths': 0, 'distinct_nontrivial': 0, 'inconclusive': 0, 'gen_failed_known': 0,
           'skipped_types': 0, 'descriptions': [], 'samples': [], 'disagreements_checked': 0, 'vacuous_types': [], 'beyond_cap': []}
    seen_sig = set()
    for res in results:
        if res['error']:
            outcome.inconclusive_item(f'{res["desc"]}: worker error: {res["error"][-400:]}')
            continue
        for t, why in res['gen_unexpected'].items():
            outcome.inconclusive_item(f'{res["desc"]}/{t}: pdlc failed to generate python: {why[-200:]}')
        cov['gen_failed_known'] += len(res['gen_failed'])
        cov['skipped_types'] += len(res['skipped'])
        cov['beyond_cap'].extend(f'{res["desc"]}/{t}' for t in res['beyond_cap'])
        if res['reports'] and res['desc'] not in cov['descriptions']:
            cov['programs'] += 1
            cov['descriptions'].append(res['desc'])
        per_type = {}
        for pdl, r in res['reports']:
            cov['paths'] += r.paths
            cov['queries'] += r.queries
            cov['solver_s'] += r.solver_s
            cov['accepting_paths'] += r.accept
            cov['rejecting_paths'] += r.reject
            st = per_type.setdefault(r.type, {'acc': 0, 'rej': 0})
            st['acc'] += r.accept
            st['rej'] += r.reject
            outcome.total += 1
            for inc in r.inconclusive:
                cov['inconclusive'] += 1
                if 'budget exhausted' in inc:
                    outcome.undecided_item(f'{r.desc}/{r.type} {r.direction}: {inc}')
                else:
                    outcome.inconclusive_item(f'{r.desc}/{r.type} {r.direction}: {inc}')
            if r.direction == 'parse' and r.accept == 0 and not r.findings and not r.inconclusive:
                cov['vacuous_types'].append(f'{r.desc}/{r.type}')
                outcome.inconclusive_item(f'{r.desc}/{r.type}: no accepting path within |b|<={r.bound} (vacuous)')
            if len(cov['samples']) < 6 and r.paths:
                cov['samples'].append({'description': r.desc, 'type': r.type, 'direction': r.direction,
                                       'input_bound': r.bound, 'paths': r.paths, 'accepting': r.accept,
                                       'rejecting': r.reject, 'solver_queries': r.queries,
                                       'wall_s': round(r.wall_s, 3), 'verdict': 'holds' if not r.findings else 'violated'})
            for f in r.findings:
                cov['disagreements_checked'] += 1
                key = (r.desc.split('#')[0].rsplit('_', 1)[0], r.type, r.direction, tuple(sorted(f.sig.items())))
                if dedupe and key in seen_sig:
                    continue
                seen_sig.add(key)
                rec = pyrun.finding_record(prop, pdl, f, r.direction)
                ok = pyrun.replay_python(rec)
                outcome.violation(dict(f.sig, backend='python'), rec, reproduced=ok)
        cov['types'] += len(per_type)
        cov['distinct_nontrivial'] += sum(1 for s in per_type.values() if s['acc'] and s['rej'])
    cov['solver_s'] = round(cov['solver_s'], 2)
    return cov


def main(tier, seed):
    t0 = time.time()
    out = Outcome(PROP)
    descs = corpus.corpus(tier, seed, backend='python')
    cap = 14 if tier == 'quick' else 24
    log(f'[C13] {len(descs)} descriptions, tier={tier}, input cap={cap}')
    results = pyrun.run_corpus(descs, cap, ('parse', 'serialize'), ser_limit=12 if tier == 'quick' else 40,
                               budget_s=240 if tier == 'quick' else 1500)
    cov = summarize(results, out)
    cov.update({
        'evaluations': cov['paths'],
        'rule': 'one evaluation = one feasible symbolic path of the generated parse_all/serialize, closed by z3 '
                'queries against the reference; a (description,type) is non-trivial when it has both accepting and '
                'rejecting paths',
        'engine': 'E-PYSYM (native exec of the generated module over z3 bit-vector proxies), z3 ' + S.z3.get_version_string(),
        'functions_encoded': ['<generated>.parse_all', '<generated>.parse', '<generated>.serialize', '<generated>.size',
                              '<Enum>.from_int', 'Packet.parse_all'],
        'bounds': {'input_bytes_cap': cap, 'array_elements_max': 2, 'payload_bytes_max': 2,
                   'integer_model_bits': S.W, 'concretize_cap': S.CONCRETIZE_CAP},
        'outside_bounds': 'longer inputs, longer arrays/payloads, checksum fields and unsized custom fields '
                          '(reference does not model user code), descriptions outside the corpus',
        'known_findings_observed': sorted(out.known_hit),
    })
    rc_pre = len(out.violations)
    write_evidence(PROP, tier, seed, 'translation_validation', cov,
                   ['reference model validated against tests/canonical vectors',
                    'custom field classes are total well-behaved stand-ins (user code)',
                    'derived packets are reached through their root parse_all'],
                   time.time() - t0, rc_pre)
    return out.finish()
