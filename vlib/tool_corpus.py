"""print / sanity-check the corpus: every description must be accepted by pdlc for its backends
and by our own plan builder"""
import sys
from . import corpus, model as M, build
from .ref import Model

def main():
    tier = sys.argv[1] if len(sys.argv) > 1 else 'quick'
    bad = 0
    for backend in ('rust', 'python'):
        ds = corpus.corpus(tier, 0, backend=backend)
        jobs = [(M.to_pdl(d.file), backend, (), d.id) for d in ds]
        outs = build.pdlc_many(jobs)
        for d, o in zip(ds, outs):
            try:
                Model(d.file)
            except Exception as e:
                print('MODEL', d.id, repr(e)); bad += 1
            if isinstance(o, Exception):
                print('PDLC', backend, d.id, str(o)[-1500:]); bad += 1
        print(backend, len(ds), 'descriptions', sum(len(d.check_types()) for d in ds), 'types')
    sys.exit(1 if bad else 0)
main()
