"""Generic driver of the E-KANI checks: select (description, type) items for a tier,
generate the harness crate shards, run cargo kani, replay counterexamples
natively, retry timeouts at a reduced bound, summarise for evidence."""
from __future__ import annotations

import os
import random
import re
import shutil
import threading
import time
from concurrent.futures import ThreadPoolExecutor
from dataclasses import dataclass, field as dfield
from typing import Callable, Dict, List, Optional, Tuple

from . import corpus, gen, harness, kanirun, model as M
from .build import build_pdlc, WORK
from .common import Outcome, log
from .ref import Model, Unsupported
from .rsreplay import NativeRunner

N_SHARDS = int(os.environ.get('VERIF_KANI_SHARDS', '8'))
CAPS = {'quick': {'cheap': 10, 'medium': 6, 'heavy': 4}, 'thorough': {'cheap': 16, 'medium': 10, 'heavy': 6}}


@dataclass
class KItem:
    unit: gen.Unit
    mdl: Model
    type: str
    kind: str           # harness kind (method h_<kind> of HarnessGen)
    L: int
    cls: str
    family: str
    K: int = 2
    result: Optional[kanirun.HarnessResult] = None
    reduced: bool = False

    @property
    def hname(self):
        return f'{self.kind}_{self.type}'

    @property
    def mod(self):
        return harness.modname(self.unit.desc_id)

    @property
    def key(self):
        return f'{self.mod}::{self.hname}'


def input_bound(mdl: Model, t: str, tier: str, cls: str) -> Optional[int]:
    cap = CAPS[tier][cls]
    ts = [t] + mdl.descendants(t)
    mn = max(mdl.min_len(x) for x in ts)
    if mn + 1 > cap + (6 if cls == 'cheap' else 2):
        return None
    L = min(cap, mn + 3)
    L = max(L, mn + 1)
    mx = [mdl.max_len(x) for x in ts]
    if all(m is not None for m in mx):
        L = min(L, max(mx) + 1)
    return max(L, 1)


def constructs(mdl: Model, t: str) -> List[str]:
    """construct tags of a type: the roles known findings are keyed by"""
    from .ref import Chunk, ArraySeg, PayloadSeg, OptSeg, StructSeg, CustomSeg
    tags = set()
    if t not in mdl.plans:
        return []
    for x in [t] + mdl.descendants(t):
        for n in mdl.chain(x):
            for seg in mdl.plans[n]:
                if isinstance(seg, CustomSeg):
                    tags.add('custom_typedef')
                elif isinstance(seg, OptSeg):
                    tags.add('optional_' + seg.inner[0])
                    if seg.inner[0] == 'struct':
                        tags.update(constructs(mdl, seg.inner[1]))
                elif isinstance(seg, StructSeg):
                    tags.update(constructs(mdl, seg.decl))
                elif isinstance(seg, PayloadSeg):
                    tags.add('payload')
                elif isinstance(seg, ArraySeg):
                    if seg.has_elemsize:
                        tags.add('array_elemsize')
                    if seg.shape[0] == 'count':
                        w = [it.width for s in mdl.plans[n] if isinstance(s, Chunk) for it in s.items
                             if it.kind == 'count' and it.target == seg.name][0]
                        if seg.elem_static is not None and seg.elem_static > 1 and w >= 60:
                            tags.add('count_wide_static_elem')
                        if seg.has_elemsize and w >= 32:
                            tags.add('count_wide_elemsize')
                        if w in (8, 16, 32, 64):
                            tags.add('count_fullwidth')
                    if seg.elem[0] == 'struct':
                        tags.update(constructs(mdl, seg.elem[1]))
                    if seg.elem[0] == 'custom':
                        tags.add('custom_array')
                    if seg.elem[0] == 'scalar' and seg.elem_static not in (1, 2, 4, 8):
                        tags.add('array_nonnative_scalar')
    return sorted(tags)


def norm_check(desc: str) -> str:
    d = desc
    fn = ''
    m = re.search(r'\[in (.*?)\]$', d)
    if m:
        fn = m.group(1)
        d = d[:m.start()].strip()
        fn = re.sub(r'^m_\w+::', '', fn)
        fn = re.sub(r'<impl .*? for (\w+)>', r'\1', fn)
    if d.startswith('This is a placeholder message'):
        d = 'panic'
    d = re.sub(r'unwinding assertion loop \d+', 'unwinding assertion', d)
    fn = re.sub(r'\{closure#\d+\}', 'closure', fn)
    fn = re.sub(r'^(h::)?c\d\d[a-z]?_\w+$', 'harness', fn)
    # the generated type name is not part of the role
    fn = re.sub(r'^(\w+)::(decode|encode|encoded_len|decode_partial|encode_partial|specialize)$', r'\2', fn)
    return f'{d} @ {fn}' if fn else d


# --------------------------------------------------------------------------- selection
def gather(tier: str, seed: int, want: Callable[[Model, gen.Unit, str, corpus.Desc], List[str]],
           quotas: Dict[str, int], families=None, out: Outcome = None) -> Tuple[List[KItem], dict]:
    """candidates from the corpus, then a stratified choice: per (family, class) the first
    `core` candidates in corpus order (fixed core) plus a VERIF_SEED-chosen slice"""
    build_pdlc()
    descs = corpus.corpus(tier, seed, families=families, backend='rust')
    only = os.environ.get('VERIF_ONLY')      # debugging aid: restrict the corpus by a regular expression on the id
    if only:
        descs = [d for d in descs if re.search(only, d.id)]
    info = {'descriptions_in_corpus': len(descs), 'gen_failed_known': {}, 'beyond_cap': [], 'unsupported': []}
    with ThreadPoolExecutor(16) as ex:
        gens = list(ex.map(lambda d: gen.generate(d, 'rust'), descs))
    cands: Dict[Tuple[str, str], List[KItem]] = {}
    core_items: List[KItem] = []
    for d, g in zip(descs, gens):
        for t, why in g.failed.items():
            info['gen_failed_known'][f'{d.id}/{t}'] = why
        for t, why in g.unexpected.items():
            if out is not None:
                out.inconclusive_item(f'{d.id}/{t}: pdlc failed to generate rust: {why[-300:]}')
        for u in g.units:
            mdl = Model(u.file)
            rr = harness.RustRef(mdl, 4, 4, 16)
            for t in u.types:
                if not rr.supported(t):
                    info['unsupported'].append(f'{u.desc_id}/{t}')
                    continue
                kinds = want(mdl, u, t, d)
                if not kinds:
                    continue
                cls = mdl.cost_class(t)
                if cls == 'heavy' and tier == 'quick' and not (d.core and set(kinds) <= {'c03', 'c05'}
                                                              and (d.core_kinds or {}).get(t)):
                    info.setdefault('heavy_left_to_thorough', []).append(f'{u.desc_id}/{t}')
                    continue
                L = input_bound(mdl, t, tier, cls)
                if L is None:
                    info['beyond_cap'].append(f'{u.desc_id}/{t}')
                    continue
                for k in kinds:
                    it_ = KItem(u, mdl, t, k, L, cls, d.family)
                    is_core = d.core and tier == 'quick' and not d.id.endswith('_be') and \
                        (d.core_kinds is None or k in d.core_kinds.get(t, []))
                    if is_core:
                        core_items.append(it_)
                    elif not (d.core and tier == 'quick'):
                        cands.setdefault((d.family, cls), []).append(it_)
    rnd = random.Random(seed)
    chosen: List[KItem] = list(core_items)
    for (fam, cls), items in sorted(cands.items()):
        q = quotas.get(f'{fam}:{cls}', quotas.get(cls, 0))
        if q <= 0:
            continue
        if len(items) <= q:
            chosen.extend(items)
            continue
        core = max(1, q // 2)
        # spread the fixed core over the family instead of taking its head
        step = len(items) / core
        idx = sorted({int(i * step) for i in range(core)})
        rest = [i for i in range(len(items)) if i not in idx]
        idx += rnd.sample(rest, min(q - len(idx), len(rest)))
        chosen.extend(items[i] for i in sorted(idx))
    info['candidates'] = sum(len(v) for v in cands.values()) + len(core_items)
    info['core_items'] = len(core_items)
    return chosen, info


# --------------------------------------------------------------------------- running
def _write_and_run(shard: int, items: List[KItem], prop: str, harness_timeout: int, jobs: int, tag: str):
    by_unit: Dict[str, List[KItem]] = {}
    for it in items:
        by_unit.setdefault(it.mod, []).append(it)
    mods = {}
    for mod, its in by_unit.items():
        u, mdl = its[0].unit, its[0].mdl
        Lmax = max(i.L for i in its)
        hg = harness.HarnessGen(mdl, Lmax, K=its[0].K)
        hg.static_octets = {i.type: getattr(i, 'static_octets', 0) for i in its}
        hg.both_calls = all(i.cls == 'cheap' for i in its) or os.environ.get('VERIF_TIER_EFF') == 'thorough' 
        hs = [(i.kind, i.type, i.L) for i in its]
        mods[mod] = hg.module(u.text, hs)
    crate = os.path.join(WORK, 'kani', prop, f'{tag}{shard}')
    kanirun.write_crate(crate, mods)
    res, text = kanirun.cargo_kani(crate, kanirun.shard_target(shard), jobs=jobs, harness_timeout=harness_timeout,
                                   total_timeout=harness_timeout * (len(items) // max(jobs, 1) + 4) + 900)
    with open(os.path.join(crate, 'kani.log'), 'w') as f:
        f.write(text)
    compiled = bool(re.search(r'(?m)^(Thread \d+: )?Checking harness ', text)) or 'Complete - ' in text
    for it in items:
        it.result = res.get(it.key) or res.get(it.hname)
        it.crate, it.shard = crate, shard
    return crate, compiled, text


def run_items(items: List[KItem], prop: str, harness_timeout=150, tag='s') -> Dict[int, str]:
    """distribute over shards (own crate + own target dir), run concurrently"""
    shards: List[List[KItem]] = [[] for _ in range(N_SHARDS)]
    # longest-processing-time-first by estimated cost; a module may be split over shards
    weight = {'heavy': 10, 'medium': 4, 'cheap': 1}
    load = [0] * N_SHARDS

    def cost(it):
        w = weight[it.cls]
        if it.kind in ('c02', 'c06d', 'c06s', 'c06t', 'c06v', 'c18d', 'c18e', 'c04r'):
            w *= 2
        return w
    for it in sorted(items, key=lambda i: (-cost(i), i.key)):
        k = min(range(N_SHARDS), key=lambda j: load[j])
        shards[k].append(it)
        load[k] += cost(it)
    used = [(i, s) for i, s in enumerate(shards) if s]
    jobs = max(1, int(os.environ.get('VERIF_KANI_JOBS', '8')) // max(1, len(used)))
    crates = {}
    errors = []

    def one(arg):
        i, s = arg
        t_ = time.time()
        crate, compiled, text = _write_and_run(i, s, prop, harness_timeout, jobs, tag)
        log(f'[{prop}] shard {tag}{i}: {len(s)} harnesses, -j{jobs}, {time.time() - t_:.0f}s')
        crates[i] = crate
        if not compiled:
            errors.append((i, text[-4000:]))
    with ThreadPoolExecutor(len(used) or 1) as ex:
        list(ex.map(one, used))
    return crates, errors


def playback(crate: str, shard: int, item: KItem, timeout=400) -> List[Tuple[str, List[bytes]]]:
    """[(check description, concrete values in kani::any() order)] for one failing harness"""
    res, text = kanirun.cargo_kani(crate, kanirun.shard_target(shard), [item.key.replace('::', '::h::', 1)], jobs=1,
                                   harness_timeout=timeout, total_timeout=timeout + 600,
                                   extra=['--exact', '-Z', 'concrete-playback', '--concrete-playback=print'])
    out = []
    for m in re.finditer(r'/// Check for `(\w+)`: ([^\n]*)\n\s*\n?#\[test\]\s*\nfn \w+\(\) \{\s*\n\s*let concrete_vals: Vec<Vec<u8>> = vec!\[(.*?)\n\s*\];',
                         text, re.S):
        cls, desc, body = m.group(1), m.group(2).strip().strip('"'), m.group(3)
        vals = []
        for vm in re.finditer(r'vec!\[([0-9, ]*)\]', body):
            vals.append(bytes(int(x) for x in vm.group(1).replace(' ', '').split(',') if x))
        out.append((cls, desc, vals))
    return out


def decode_input_from_vals(vals: List[bytes], L: int) -> Optional[bytes]:
    """harnesses draw `data: [u8; L]` then `n: usize`"""
    if len(vals) < L + 1:
        return None
    data = bytes(v[0] for v in vals[:L])
    n = int.from_bytes(vals[L], 'little')
    if n > L:
        return None
    return data[:n]


# --------------------------------------------------------------------------- judging
def run_and_judge(prop: str, tier: str, seed: int, items: List[KItem], info: dict, out: Outcome,
                  replay_native: Callable, extra_arms: Callable[[List[KItem]], str] = None,
                  own_prefixes: Tuple[str, ...] = (), default_checks_are_mine=False,
                  extract: Callable = None, harness_timeout=None, max_replays=10, runner_ops: str = '',
                  inner_fn: Callable = None) -> dict:
    """run the harnesses; attribute failed checks to this property; replay; fill `out`;
    returns the coverage dict for the evidence file"""
    t0 = time.time()
    harness_timeout = harness_timeout or (180 if tier == 'quick' else 600)
    crates, errors = run_items(items, prop, harness_timeout)
    for i, tail in errors:
        out.inconclusive_item(f'harness crate shard {i} did not build/run: {tail[-700:]}')
    # adaptive bound reduction: one retry of timeouts / errors at a smaller bound
    retry = [it for it in items if it.result is None or it.result.status in ('timeout', 'error', 'oom')]
    retry = [it for it in retry if not errors and it.cls != 'heavy' and it.kind in ('c01', 'c04', 'c04r', 'c18d', 'c06d', 'c06s', 'c06t')]
    if retry:
        for it in retry:
            mn = max(it.mdl.min_len(x) for x in [it.type] + it.mdl.descendants(it.type)) if it.type in it.mdl.plans else 0
            newL = max(mn + 1, it.L - 2)
            it.first_status = it.result.status if it.result else 'missing'
            if newL < it.L:
                it.L = newL
                it.reduced = True
        again = [it for it in retry if it.reduced]
        if again:
            log(f'[{prop}] retrying {len(again)} timed-out harnesses at a reduced bound')
            c2, e2 = run_items(again, prop, harness_timeout, tag='r')
            for it in again:
                it.crate_tag = 'r'
            crates_retry = c2
        else:
            crates_retry = {}
    else:
        crates_retry = {}

    def is_mine(desc: str) -> bool:
        m = re.match(r'(C\d\d):', desc)
        if m:
            return any(desc.startswith(p) for p in own_prefixes)
        return default_checks_are_mine

    cov = {'harnesses': len(items), 'held': 0, 'failed': 0, 'inconclusive': 0, 'solver_s': 0.0, 'properties_checked': 0,
           'reduced_bound': [], 'optional_inconclusive': [], 'undecided': [], 'not_mine_failures': 0, 'samples': [], 'programs': len({it.mod for it in items}),
           'descriptions': sorted({it.unit.desc_id for it in items}), 'by_class': {}, 'bounds': {}}
    failures: Dict[str, List[KItem]] = {}
    nontrivial = set()
    out.total += len(items)
    for it in items:
        r = it.result
        cov['by_class'][it.cls] = cov['by_class'].get(it.cls, 0) + 1
        cov['bounds'][f'{it.unit.desc_id}/{it.type}/{it.kind}'] = it.L
        if r is None:
            cov['inconclusive'] += 1
            out.inconclusive_item(f'{it.key}: no result reported by cargo kani')
            continue
        cov['solver_s'] += r.time_s
        cov['properties_checked'] += r.n_props
        if it.reduced:
            cov['reduced_bound'].append(f'{it.key} decided at |b|<={it.L}')
        if r.status == 'success':
            if r.unsat_covers:
                cov['inconclusive'] += 1
                out.inconclusive_item(f'{it.key}: vacuous harness ({r.unsat_covers[0]})')
            else:
                cov['held'] += 1
                nontrivial.add((it.unit.desc_id, it.type))
        elif r.status == 'failed':
            mine = sorted({norm_check(c) for c in r.failed_checks if is_mine(c)})
            if not mine:
                cov['held'] += 1
                cov['not_mine_failures'] += 1
                nontrivial.add((it.unit.desc_id, it.type))
            else:
                cov['failed'] += 1
                sig_key = ' | '.join(mine) + ' || ' + ','.join(constructs(it.mdl, it.type))
                it.mine = mine
                failures.setdefault(sig_key, []).append(it)
        elif it.cls == 'heavy':
            # optional extras: reported, never counted as a pass, do not make the run inconclusive
            cov['optional_inconclusive'].append(f'{it.key}: {r.status} at input bound {it.L}')
        elif r.status in ('timeout', 'oom'):
            why = 'timeout' if r.status == 'timeout' else 'CBMC ran out of memory'
            cov['undecided'].append(f'{it.key}: {why} at input bound {it.L}' + (' (already reduced)' if it.reduced else ''))
            out.undecided_item(f'{it.key}: {why} at input bound {it.L}' + (' (already reduced)' if it.reduced else ''))
        else:
            cov['inconclusive'] += 1
            out.inconclusive_item(f'{it.key}: {r.status} at input bound {it.L}' + (' (already reduced)' if it.reduced else ''))
        if len(cov['samples']) < 8:
            cov['samples'].append({'description': it.unit.desc_id, 'type': it.type, 'harness': it.hname, 'input_bound': it.L,
                                   'unwind': harness.HarnessGen.unwind(it.L), 'verdict': r.status, 'cbmc_time_s': r.time_s,
                                   'properties': r.n_props, 'failed_checks': [norm_check(c) for c in r.failed_checks][:4]})
    # replay one representative per signature
    n_replayed = 0
    runners: Dict[str, NativeRunner] = {}
    for sig_key, its in sorted(failures.items()):
        it = sorted(its, key=lambda i: i.L)[0]
        sig = {'backend': 'rust', 'kind': it.kind, 'checks': ' | '.join(it.mine), 'constructs': constructs(it.mdl, it.type)}
        record = {'property': prop, 'engine': 'E-KANI', 'desc': it.unit.desc_id, 'type': it.type, 'harness': it.key,
                  'input_bound': it.L, 'failed_checks': it.mine, 'sig': sig, 'pdl': it.unit.pdl,
                  'same_signature_harnesses': [x.key for x in its]}
        # cheap pre-check: a listed known finding is not replayed again if it matched and was replayed before in this run
        if n_replayed >= max_replays:
            out.inconclusive_item(f'{it.key}: failure not replayed (replay budget); checks: {it.mine}')
            continue
        n_replayed += 1
        t_ = time.time()
        shard, crate = it.shard, it.crate
        try:
            pbs = playback(crate, shard, it)
        except Exception as e:  # noqa
            pbs = []
        reproduced = False
        for cls, desc, vals in pbs:
            if cls == 'cover' or not is_mine(desc):
                continue
            inp = (extract or (lambda i, v: decode_input_from_vals(v, i.L)))(it, vals)
            if inp is None:
                continue
            if it.mod not in runners:
                same_mod = [x for x in items if x.mod == it.mod]
                types = sorted({x.type for x in same_mod if x.type in x.mdl.plans})
                runners[it.mod] = NativeRunner(it.unit.text, types, runner_ops,
                                               extra_arms(same_mod) if extra_arms else '',
                                               inner_fn(same_mod) if inner_fn else '')
            try:
                ok, obs = replay_native(runners[it.mod], it, inp)
            except Exception as e:  # noqa
                ok, obs = False, {'error': str(e)[-600:]}
            record['input'] = inp.hex() if isinstance(inp, (bytes, bytearray)) else inp
            record['kani_check'] = desc
            record['native'] = obs
            if ok:
                reproduced = True
                break
        if not pbs:
            record['native'] = {'error': 'concrete playback produced no values'}
        log(f'[{prop}] replay of {it.key}: {time.time() - t_:.0f}s reproduced={reproduced}')
        out.violation(sig, record, reproduced=reproduced)
    for r in runners.values():
        r.cleanup()
    cov['solver_s'] = round(cov['solver_s'], 1)
    cov['evaluations'] = cov['held'] + cov['failed']
    cov['distinct_nontrivial'] = len(nontrivial)
    cov['rule'] = ('one evaluation = one #[kani::proof] harness decided by CBMC (all inputs up to the bound); a '
                   '(description,type) is non-trivial when its harness reached the accepting-path cover')
    cov['obligations'] = cov['harnesses']
    cov['discharged'] = cov['held']
    cov['engine'] = 'E-KANI: kani 0.68 / CBMC 6.11 / CaDiCaL over generated Rust + pdl-runtime + bytes'
    cov['selection'] = {k: info[k] if not isinstance(info[k], (list, dict)) else len(info[k]) for k in info}
    cov['heavy_left_to_thorough'] = info.get('heavy_left_to_thorough', [])[:30]
    cov['gen_failed_known'] = sorted(set(info['gen_failed_known'].values()))
    cov['beyond_cap'] = info['beyond_cap'][:40]
    cov['known_findings_observed'] = sorted(out.known_hit)
    cov['kani_wall_s'] = round(time.time() - t0, 1)
    return cov


def _locate(it: KItem, crates, crates_retry, prop):
    if getattr(it, 'crate_tag', 's') == 'r':
        for i, c in crates_retry.items():
            if os.path.exists(os.path.join(c, 'src', f'{it.mod}.rs')):
                return i, c
    for i, c in crates.items():
        if os.path.exists(os.path.join(c, 'src', f'{it.mod}.rs')):
            return i, c
    raise KeyError(it.mod)
