"""C01 — generated Rust parsers are total and memory-safe on arbitrary bytes (E-KANI)."""
from __future__ import annotations

import time
from typing import List

from . import kcheck, kanirun
from .common import Outcome, write_evidence, log
from .kcheck import KItem
from .rsreplay import NativeRunner

PROP = 'C01'
QUOTAS = {
    'quick': {'cheap': 1, 'medium': 2, 'heavy': 0, 'F1:cheap': 8, 'F2:medium': 6, 'F6:cheap': 1, 'R:cheap': 3, 'R:medium': 4},
    'thorough': {'cheap': 150, 'medium': 80, 'heavy': 12, 'F1:cheap': 500, 'F2:medium': 120, 'R:cheap': 60,
                 'R:medium': 70, 'R:heavy': 16},
}


def conv_arms(items: List[KItem]) -> str:
    arms = []
    seen = set()
    for it in items:
        mdl, t = it.mdl, it.type
        if t in seen or not mdl.children(t):
            continue
        seen.add(t)
        body = [f'("{t}", "conv") => {{ let mut s: &[u8] = b; match {t}::decode_mut(&mut s) {{ Ok(v) => {{',
                '    let sp = v.specialize(); let mut out = format!("OK conv spec_ok={}", sp.is_ok());']
        for c in mdl.children(t):
            body.append(f'    let c = {c}::try_from(&v); out += &format!(" {c}={{}}", c.is_ok());')
        body.append('    out }, Err(e) => format!("ERR {}", dvariant(&e)) } }')
        arms.append('\n'.join(body))
    return '\n'.join(arms)


def replay_native(runner: NativeRunner, it: KItem, data: bytes):
    """(reproduced, observations)"""
    obs = {}
    bad = False
    ops = ['decode_mut', 'decode_full'] + (['conv'] if it.mdl.children(it.type) else [])
    for profile in ('dev', 'release'):
        for op in ops:
            r = runner.run(profile, it.type, op, data)
            obs[f'{profile}:{op}'] = r[:300]
            if r.startswith(('PANIC', 'HANG', 'NOOUTPUT')) or 'suffix=false' in r or 'untouched=false' in r:
                bad = True
    return bad, obs


def main(tier, seed):
    import os
    os.environ['VERIF_TIER_EFF'] = tier
    t0 = time.time()
    out = Outcome(PROP)
    items, info = kcheck.gather(tier, seed, lambda mdl, u, t, d: ['c01'], QUOTAS[tier], out=out)
    log(f'[C01] {len(items)} harnesses selected of {info["candidates"]} candidates')
    cov = kcheck.run_and_judge(PROP, tier, seed, items, info, out, replay_native, conv_arms,
                               own_prefixes=('C01:',), default_checks_are_mine=True)
    cov['functions_encoded'] = ['<T>::decode (generated)', 'pdl_runtime::Packet::decode_mut', 'pdl_runtime::Packet::decode_full',
                                '<Parent>::specialize', '<Child>::try_from(&Parent) / decode_partial',
                                '<Enum>::try_from', 'bytes::Buf for &[u8]', 'Vec / alloc']
    cov['not_decided'] = 'memory out of proportion to the input (successful large allocations are not observable under CBMC)'
    write_evidence(PROP, tier, seed, 'model_checking', cov,
                   ['kani::any() byte array with symbolic length <= the per-type bound', 'Kani unwinding assertions on',
                    'std::mem::forget of results (drop glue is not the subject)'],
                   time.time() - t0, len(out.violations))
    return out.finish()
