"""Checks of the generated Python (C13, and the Python legs of C15/C17/C07),
decided by E-PYSYM: every feasible path of the real generated module over a
symbolic input, each path closed by a z3 query against the reference model."""
from __future__ import annotations

import itertools
import time
import traceback
from dataclasses import dataclass, field as dfield
from typing import Dict, List, Optional

import z3

from . import model as M
from . import pysym as S
from .ref import Model, Reject, Unsupported, ArraySeg, PayloadSeg, OptSeg, StructSeg, CustomSeg, Chunk


# --------------------------------------------------------------------------- user-supplied types (stand-ins)
def custom_standins(mdl: Model, symbolic=True):
    """total, well-behaved stand-ins for custom field classes (user code, not pdl's)"""
    out = {}
    endian = mdl.endian
    for d in mdl.file.decls:
        if d.kind == 'checksum':
            def mkc(width=d.width):
                def checksum(span):
                    total = 0
                    for x in span:
                        total = total + x
                    return total % (1 << width)
                return checksum
            out[d.name] = mkc()
        if d.kind == 'custom_field' and d.width is None:
            def mku(cname=d.name):
                class Unsized:
                    def __init__(self, value=0):
                        self.value = value

                    @staticmethod
                    def parse(span):
                        return Unsized(span[0]), span[1:]

                    @staticmethod
                    def parse_all(span):
                        return Unsized(span[0])

                    def serialize(self):
                        return [self.value]

                    @property
                    def size(self):
                        return 1
                Unsized.__name__ = cname
                return Unsized
            out[d.name] = mku()
        if d.kind == 'custom_field' and d.width is not None:
            nbytes = d.width // 8

            def mk(nbytes=nbytes, cname=d.name):
                class Custom:
                    def __init__(self, value=0):
                        self.value = value

                    @staticmethod
                    def parse(span):
                        fb = S.sym_int.from_bytes if symbolic else int.from_bytes
                        return Custom(fb(span[:nbytes], byteorder=endian)), span[nbytes:]

                    @staticmethod
                    def parse_all(span):
                        fb = S.sym_int.from_bytes if symbolic else int.from_bytes
                        return Custom(fb(span, byteorder=endian))

                    def serialize(self):
                        tb = S.sym_int.to_bytes if symbolic else int.to_bytes
                        return tb(self.value, length=nbytes, byteorder=endian)

                    @property
                    def size(self):
                        return nbytes
                Custom.__name__ = cname
                return Custom
            out[d.name] = mk()
    return out


# --------------------------------------------------------------------------- comparison of generated objects with reference values
def _eq(a, b):
    """equality of two scalars (python ints, IntEnum members, SInt) -> bool | SBool"""
    r = (a == b)
    return r


def _conj(parts):
    conds = []
    for p in parts:
        if isinstance(p, S.SBool):
            conds.append(p.e)
        elif not p:
            return False
    if not conds:
        return True
    return S.SBool(z3.And(*conds))


def named_fields(mdl: Model, tname) -> List[M.Field]:
    """all named non-flag fields along the chain (constrained ones included)"""
    out = []
    for n in mdl.chain(tname):
        fl = mdl.flags(n)
        for f in mdl.fields[n]:
            if f.name and f.kind in ('scalar', 'typedef', 'array') and f.name not in fl:
                out.append(f)
    return out


def obj_matches(mdl: Model, tname, obj, rv, payload=True):
    """generated object == reference value dict, field by field"""
    parts = []
    for f in named_fields(mdl, tname):
        if not hasattr(obj, f.name):
            return False
        a, b = getattr(obj, f.name), rv[f.name]
        parts.append(_val_matches(mdl, f, a, b))
    if payload and mdl.has_payload(tname):
        pa = getattr(obj, 'payload', None)
        if pa is None:
            return False
        parts.append(S.seq_eq(list(pa), list(rv['payload'])))
    return _conj(parts)


class _Any:
    """placeholder for a value the serializer computes itself (checksum)"""


ANY = _Any()


def _val_matches(mdl, f: M.Field, a, b):
    if b is ANY:
        return True
    if b is None or a is None:
        return a is None and b is None
    if f.kind == 'scalar':
        return _eq(a, b)
    if f.kind == 'typedef':
        k = mdl.kind_of(f.type_id)
        if k == 'enum':
            return _eq(a, b)
        if k == 'struct':
            return obj_matches(mdl, f.type_id, a, b, payload=type(a).__name__ == f.type_id)
        if k == 'custom_field':
            return _eq(a.value, b)
        if k == 'checksum':
            return _eq(a, b)
        raise Unsupported(k)
    if f.kind == 'array':
        a = list(a)
        if len(a) != len(b):
            return False
        if f.width is not None or mdl.kind_of(f.type_id) == 'enum':
            return _conj(_eq(x, y) for x, y in zip(a, b))
        if mdl.kind_of(f.type_id) == 'struct':
            return _conj(obj_matches(mdl, f.type_id, x, y, payload=type(x).__name__ == f.type_id)
                         for x, y in zip(a, b))
        return _conj(_eq(x.value, y) for x, y in zip(a, b))
    raise Unsupported(f.kind)


def is_alias(mdl: Model, name):
    return all(f.kind in ('payload', 'body') for f in mdl.file.get(name).fields)


# --------------------------------------------------------------------------- one path of the parse-direction check
@dataclass
class Finding:
    kind: str
    desc: str
    type: str
    detail: str
    input: Optional[bytes] = None
    sig: Dict[str, str] = dfield(default_factory=dict)
    extra: Dict = dfield(default_factory=dict)


def _model_bytes(c, n, extra=None):
    m = c.sat(True if extra is None else extra)
    if m is None:
        return None
    return S.model_bytes(m, 'b', n)


def _mbytes(m, n):
    return S.model_bytes(m, 'b', n)


def parse_path(c, mod, mdl: Model, root: str, b, out: dict):
    """one (symbolic or concrete) execution path of Root.parse_all(b)"""
    n = len(b)
    cls = getattr(mod, root)
    try:
        obj = cls.parse_all(b)
        gen = ('ok', obj)
    except mod.DecodeError as e:
        gen = ('reject', type(e).__name__)
    except Exception as e:   # noqa: anything else on a feasible path violates C13
        site = 'checksum_mismatch' if type(e) is Exception and str(e).startswith('Invalid checksum computation') else ''
        out['finding'] = Finding('crash', '', root, f'{type(e).__name__}: {e}', _model_bytes(c, n),
                                 sig={'kind': 'crash', 'exc': type(e).__name__, 'site': site})
        out['tb'] = traceback.format_exc(limit=6)
        return 'crash'
    try:
        rv = mdl.decode(root, b)
        ref = ('ok', rv)
    except Reject as r:
        ref = ('reject', r)
    if gen[0] == 'reject' and ref[0] == 'reject':
        return 'reject'
    if gen[0] != ref[0]:
        site = ref[1].site if ref[0] == 'reject' else ''
        out['finding'] = Finding('accept_mismatch', '', root,
                                 f'generated parser: {gen[0]} ({gen[1] if gen[0] == "reject" else type(gen[1]).__name__}); '
                                 f'reference: {ref[0]} ({ref[1] if ref[0] == "reject" else ""})',
                                 _model_bytes(c, n),
                                 sig={'kind': 'accept_mismatch', 'gen': gen[0], 'ref_site': site})
        return 'mismatch'
    # both accept: which type was returned?
    tname = type(obj).__name__
    if tname != root:
        if tname not in mdl.descendants(root):
            out['finding'] = Finding('dispatch', '', root, f'returned foreign type {tname}', _model_bytes(c, n),
                                     sig={'kind': 'dispatch'})
            return 'mismatch'
    # expected most-derived non-alias type per the reference
    accepted = {}
    for d in mdl.descendants(root):
        try:
            accepted[d] = mdl.decode(d, b)
        except Reject:
            pass
    cands = [d for d in accepted if not is_alias(mdl, d)]
    maximal = [d for d in cands if not any(x in cands for x in mdl.descendants(d))]
    if maximal:
        if tname not in maximal:
            out['finding'] = Finding('dispatch', '', root,
                                     f'reference specializes to {maximal}, generated parser returned {tname}',
                                     _model_bytes(c, n), sig={'kind': 'dispatch'})
            return 'mismatch'
        rv_t = accepted[tname]
    else:
        if tname != root:
            out['finding'] = Finding('dispatch', '', root,
                                     f'generated parser returned {tname} which the reference rejects',
                                     _model_bytes(c, n), sig={'kind': 'dispatch'})
            return 'mismatch'
        rv_t = rv
    eq = obj_matches(mdl, tname, obj, rv_t)
    neq = z3.Not(eq.e) if isinstance(eq, S.SBool) else z3.BoolVal(not eq)
    m = c.sat(neq)
    if m is not None:
        out['finding'] = Finding('value_mismatch', '', root, f'field values of {tname} differ from the reference',
                                 S.model_bytes(m, 'b', n), sig={'kind': 'value_mismatch'})
        return 'mismatch'
    # serialize(parse_all(b)) == canonical reference encoding
    try:
        ser = obj.serialize()
    except Exception as e:  # noqa
        out['finding'] = Finding('serialize_crash', '', root, f'serialize of parsed {tname}: {type(e).__name__}: {e}',
                                 _model_bytes(c, n), sig={'kind': 'serialize_crash', 'exc': type(e).__name__})
        return 'crash'
    want = mdl.encode(tname, rv_t)
    eq = S.seq_eq(list(ser), want)
    neq = z3.Not(eq.e) if isinstance(eq, S.SBool) else z3.BoolVal(not eq)
    m = c.sat(neq)
    if m is not None:
        out['finding'] = Finding('serialize_mismatch', '', root,
                                 f'serialize(parse_all(b)) of {tname} differs from the reference encoding',
                                 S.model_bytes(m, 'b', n), sig={'kind': 'serialize_mismatch'})
        return 'mismatch'
    if tname == root:
        sz = obj.size
        if isinstance(sz, S.SInt):
            sz = sz.__index__()
        if sz != len(ser):
            out['finding'] = Finding('size_mismatch', '', root, f'.size == {sz} but len(serialize()) == {len(ser)}',
                                     _model_bytes(c, n),
                                     sig={'kind': 'size_mismatch', 'via': 'derived_struct' if _has_derived(obj) else ''})
            return 'mismatch'
    return 'accept'


# --------------------------------------------------------------------------- value construction (serialize direction)
class Shape:
    """concrete structure of a value: array lengths, optional presence, payload length.
    Choice points are discovered while building; `choices[i]` selects option i."""

    def __init__(self, choices=()):
        self.choices = list(choices)
        self.n_opts = []

    def pick(self, options):
        i = len(self.n_opts)
        self.n_opts.append(len(options))
        k = self.choices[i] if i < len(self.choices) else 0
        return options[min(k, len(options) - 1)]


def sym_value(mdl: Model, name, shape: Shape, prefix, K=2, P=2, assume=None, mk=None, mkbytes=None):
    """symbolic value of type `name`; `assume(cond)` receives validity conditions"""
    vals = {}
    mk = mk or S.fresh_int
    mkbytes = mkbytes or S.SBytes.fresh
    cs = mdl.all_constraints(name)
    for n in mdl.chain(name):
        flags = mdl.flags(n)
        flagval = {fl: shape.pick([0, 1]) for fl in flags}
        for i, f in enumerate(mdl.fields[n]):
            if f.name is None or f.kind not in ('scalar', 'typedef', 'array') or f.name in flags:
                continue
            pfx = f'{prefix}{f.name}'
            if f.name in cs:
                continue
            if f.cond is not None and flagval[f.cond[0]] != f.cond[1]:
                vals[f.name] = None
                continue
            if f.kind == 'scalar':
                vals[f.name] = mk(pfx, f.width)
            elif f.kind == 'typedef':
                vals[f.name] = _sym_typed(mdl, f.type_id, shape, pfx, K, P, assume, mk, mkbytes)
            else:
                if f.count is not None:
                    ln = f.count
                else:
                    ln = shape.pick(list(range(K + 1)))
                if f.width is not None:
                    vals[f.name] = [mk(f'{pfx}_{j}', f.width) for j in range(ln)]
                else:
                    vals[f.name] = [_sym_typed(mdl, f.type_id, shape, f'{pfx}_{j}', K, P, assume, mk, mkbytes) for j in range(ln)]
    if mdl.has_payload(name):
        ln = shape.pick(list(range(P + 1)))
        vals['payload'] = mkbytes(f'{prefix}pl', ln)
    return vals


def _sym_typed(mdl, type_id, shape, pfx, K, P, assume, mk, mkbytes):
    d = mdl.decls[type_id]
    if d.kind == 'enum':
        v = mk(pfx, d.width)
        ok = mdl.enum_valid(type_id, v)
        if assume is not None and ok is not True:
            assume(ok)
        return v
    if d.kind == 'custom_field':
        return mk(pfx, d.width)
    if d.kind == 'checksum':
        return ANY
    if d.kind == 'struct':
        return sym_value(mdl, type_id, shape, pfx + '.', K, P, assume, mk, mkbytes)
    raise Unsupported(d.kind)


def shapes_for(build, limit=24):
    """all-default shape, then each choice point varied alone, then all-last"""
    s0 = Shape()
    build(s0)
    out = [[]]
    n = list(s0.n_opts)
    for i, k in enumerate(n):
        for j in range(1, k):
            out.append([0] * i + [j])
    out.append([x - 1 for x in n])
    seen, uniq = set(), []
    for c in out:
        t = tuple(c)
        if t not in seen:
            seen.add(t)
            uniq.append(c)
    return uniq[:limit]


def to_obj(mod, mdl: Model, name, vals, symbolic=True):
    cls = getattr(mod, name)
    kw = {}
    cs = mdl.all_constraints(name)
    for f in named_fields(mdl, name):
        if f.name in cs:
            continue
        v = vals[f.name]
        if v is None:
            kw[f.name] = None
        elif f.kind == 'scalar':
            kw[f.name] = v
        elif f.kind == 'typedef':
            kw[f.name] = _to_typed(mod, mdl, f.type_id, v, symbolic)
        else:
            if f.width == 8:
                kw[f.name] = S.SByteArray(v) if symbolic else bytearray(v)
            elif f.width is not None:
                kw[f.name] = list(v)
            else:
                kw[f.name] = [_to_typed(mod, mdl, f.type_id, x, symbolic) for x in v]
    if mdl.has_payload(name):
        kw['payload'] = vals['payload']
    return cls(**kw)


def _to_typed(mod, mdl, type_id, v, symbolic=True):
    k = mdl.kind_of(type_id)
    if k == 'enum':
        return v
    if k == 'checksum':
        return 0
    if k == 'custom_field':
        return getattr(mod, type_id)(v)
    return to_obj(mod, mdl, type_id, v, symbolic)


def _has_derived(obj, depth=0):
    """does the value contain an instance of a derived (child) struct/packet?"""
    import dataclasses
    if depth > 6 or not dataclasses.is_dataclass(obj):
        return False
    for f in dataclasses.fields(obj):
        v = getattr(obj, f.name, None)
        for x in (v if isinstance(v, list) else [v]):
            if dataclasses.is_dataclass(x):
                if len(type(x).__mro__) > 3 or _has_derived(x, depth + 1):
                    return True
    return False


def serialize_path(c, mod, mdl: Model, tname: str, choices, out: dict, mk=None, mkbytes=None, symbolic=True,
                   roundtrip=True):
    """serialize(v) == ref_encode(v) and parse_all(serialize(v)) gives v back, one path"""
    shape = Shape(choices)
    conds = []
    vals = sym_value(mdl, tname, shape, 'v.', assume=conds.append, mk=mk, mkbytes=mkbytes)
    if mdl.size_faults(tname, vals):
        return 'skipped_not_wellformed'
    for cnd in conds:
        c.assume(cnd.e if isinstance(cnd, S.SBool) else z3.BoolVal(bool(cnd)))
    out['shape'] = list(shape.choices[:len(shape.n_opts)])
    obj = to_obj(mod, mdl, tname, vals, symbolic)
    try:
        ser = obj.serialize()
    except Exception as e:  # noqa
        m = c.sat(True)
        out['finding'] = Finding('serialize_crash', '', tname, f'{type(e).__name__}: {e}', None,
                                 sig={'kind': 'serialize_crash', 'exc': type(e).__name__},
                                 extra={'model': _model_dict(m)})
        return 'crash'
    want = mdl.encode(tname, vals)
    eq = S.seq_eq(list(ser), want)
    neq = z3.Not(eq.e) if isinstance(eq, S.SBool) else z3.BoolVal(not eq)
    m = c.sat(neq)
    if m is not None:
        out['finding'] = Finding('serialize_mismatch', '', tname, 'serialize(v) differs from the reference encoding',
                                 None, sig={'kind': 'serialize_mismatch'}, extra={'model': _model_dict(m)})
        return 'mismatch'
    if not mdl.decls[tname].parent:
        sz = obj.size
        if isinstance(sz, S.SInt):
            sz = sz.__index__()
        if sz != len(ser):
            out['finding'] = Finding('size_mismatch', '', tname, f'.size == {sz}, len(serialize()) == {len(ser)}', None,
                                     sig={'kind': 'size_mismatch'}, extra={'model': _model_dict(c.sat(True))})
            return 'mismatch'
    if not roundtrip:
        return 'accept'
    # read back through the root's parse_all
    root = mdl.chain(tname)[0]
    try:
        back = getattr(mod, root).parse_all(ser)
    except Exception as e:  # noqa
        out['finding'] = Finding('roundtrip', '', tname, f'parse_all(serialize(v)) raised {type(e).__name__}: {e}', None,
                                 sig={'kind': 'roundtrip', 'exc': type(e).__name__},
                                 extra={'model': _model_dict(c.sat(True))})
        return 'mismatch'
    bname = type(back).__name__
    full = dict(vals)
    for k, v in mdl.all_constraints(tname).items():
        full[k] = mdl.constraint_value(tname, k, v)
    if bname == tname:
        eq = obj_matches(mdl, tname, back, full)
    elif bname in mdl.decls and mdl.chain(bname)[0] == root:
        # another type of the same tree may legitimately come back (alias parents, a payload that
        # also parses as a child or sibling): compare on the deepest common ancestor's view
        ca, cb = mdl.chain(tname), mdl.chain(bname)
        common = [x for x, y in zip(ca, cb) if x == y][-1]
        eq = obj_matches(mdl, common, back, full, payload=False)
    else:
        eq = False
    neq = z3.Not(eq.e) if isinstance(eq, S.SBool) else z3.BoolVal(not eq)
    m = c.sat(neq)
    if m is not None:
        out['finding'] = Finding('roundtrip', '', tname, f'parse_all(serialize(v)) returned {bname} with different field values',
                                 None, sig={'kind': 'roundtrip'}, extra={'model': _model_dict(m)})
        return 'mismatch'
    return 'accept'


def _model_dict(m):
    if m is None:
        return {}
    return {str(d): m[d].as_long() for d in m.decls() if hasattr(m[d], 'as_long')}


# --------------------------------------------------------------------------- drivers
@dataclass
class TypeReport:
    desc: str
    type: str
    direction: str
    bound: int
    paths: int = 0
    accept: int = 0
    reject: int = 0
    queries: int = 0
    solver_s: float = 0.0
    wall_s: float = 0.0
    inconclusive: List[str] = dfield(default_factory=list)
    findings: List[Finding] = dfield(default_factory=list)
    timeouts: int = 0


def check_parse(mod, mdl: Model, desc_id, root, L, deadline=None) -> TypeReport:
    rep = TypeReport(desc_id, root, 'parse', L)
    t0 = time.time()
    for n in range(L + 1):
        holder = []

        def fn(c, n=n):
            out = {}
            st = parse_path(c, mod, mdl, root, S.SBytes.fresh('b', n), out)
            holder.append(out)
            return st
        for r in S.explore(fn, deadline=deadline):
            rep.paths += 1
            rep.queries += r.queries
            rep.solver_s += r.solver_s
            if r.status == 'done':
                if r.value == 'accept':
                    rep.accept += 1
                elif r.value == 'reject':
                    rep.reject += 1
            elif r.status == 'timeout':
                rep.timeouts += 1
                rep.findings.append(Finding('nontermination', desc_id, root,
                                            f'path did not finish within {S.PATH_SECONDS}s at |b|={n}', None,
                                            sig={'kind': 'nontermination'}, extra={'n': n}))
            else:
                rep.inconclusive.append(f'|b|={n}: {r.value}')
        for out in holder:
            if 'finding' in out:
                f = out['finding']
                f.desc = desc_id
                if 'tb' in out:
                    f.extra['traceback'] = out['tb']
                rep.findings.append(f)
    rep.wall_s = time.time() - t0
    return rep


def check_serialize(mod, mdl: Model, desc_id, tname, deadline=None, limit=24, roundtrip=True) -> TypeReport:
    rep = TypeReport(desc_id, tname, 'serialize', 0)
    t0 = time.time()

    def probe(shape):
        sym_value(mdl, tname, shape, 'v.')
    saved = S._ctx
    S._ctx = S._Ctx([])     # fresh_int needs no context, enum_valid builds SBool lazily; keep a context anyway
    try:
        shapes = shapes_for(probe, limit)
    finally:
        S._ctx = saved
    for ch in shapes:
        holder = []

        def fn(c, ch=ch):
            out = {}
            st = serialize_path(c, mod, mdl, tname, ch, out, roundtrip=roundtrip)
            holder.append(out)
            return st
        for r in S.explore(fn, deadline=deadline):
            rep.paths += 1
            rep.queries += r.queries
            rep.solver_s += r.solver_s
            if r.status == 'done':
                if r.value == 'accept':
                    rep.accept += 1
                elif r.value == 'skipped_not_wellformed':
                    rep.reject += 1
            elif r.status == 'timeout':
                rep.timeouts += 1
                rep.findings.append(Finding('nontermination', desc_id, tname, 'serialize path timed out', None,
                                            sig={'kind': 'nontermination'}, extra={'shape': ch}))
            else:
                rep.inconclusive.append(f'shape={ch}: {r.value}')
        for out in holder:
            if 'finding' in out:
                f = out['finding']
                f.desc = desc_id
                f.extra['shape'] = out.get('shape', ch)
                rep.findings.append(f)
    rep.wall_s = time.time() - t0
    return rep
