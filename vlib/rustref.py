"""Print the reference model (vlib.ref layout plans) as heap-free Rust for the
Kani harness crate: value types, decoder, encoder, well-formedness, comparison
with the generated types, construction of generated values.

Everything is straight-line code or loops bounded by the fixed capacities
ACAP (array elements) / PCAP (payload octets); exceeding a capacity yields
Fault::Cap, which harnesses assume away (outside the bound, stated).
"""
from __future__ import annotations

from typing import List

from . import model as M
from .ref import (Model, Chunk, ArraySeg, PayloadSeg, OptSeg, StructSeg, CustomSeg, ChecksumStart, ChecksumValue,
                  Unsupported)


def backing(width):
    for w in (8, 16, 32, 64):
        if width <= w:
            return w
    raise ValueError(width)


def camel(tag: str) -> str:
    """heck::ToUpperCamelCase as used by the generator for enum tags"""
    out, word = [], ''
    prev_lower = False
    words = []
    cur = ''
    for ch in tag:
        if ch == '_':
            if cur:
                words.append(cur)
            cur = ''
            prev_lower = False
            continue
        if ch.isupper() and prev_lower:
            words.append(cur)
            cur = ch
        else:
            cur += ch
        prev_lower = ch.islower() or ch.isdigit()
    if cur:
        words.append(cur)
    return ''.join(w[:1].upper() + w[1:].lower() for w in words)


class W:
    def __init__(self):
        self.lines: List[str] = []
        self.ind = 0

    def __call__(self, s=''):
        for ln in s.split('\n'):
            self.lines.append(('    ' * self.ind + ln) if ln else '')

    def open(self, s):
        self(s)
        self.ind += 1

    def close(self, s='}'):
        self.ind -= 1
        self(s)

    def text(self):
        return '\n'.join(self.lines) + '\n'


class RustRef:
    def __init__(self, mdl: Model, acap: int, pcap: int, ocap: int):
        self.m = mdl
        self.acap, self.pcap, self.ocap = acap, pcap, ocap
        self.big = 'true' if mdl.endian == 'big' else 'false'
        self.types = [n for n in mdl.plans]          # packets and structs, declaration order
        self.order = self._topo()

    # ------------------------------------------------------------------ helpers
    def _topo(self):
        """declaration order such that referenced struct types come first (readability only)"""
        return list(self.types)

    def supported(self, name) -> bool:
        try:
            for n in self.m.chain(name):
                for seg in self.m.plans[n]:
                    if isinstance(seg, (ChecksumStart, ChecksumValue)):
                        return False
                    if isinstance(seg, CustomSeg) and seg.nbytes is None:
                        return False
                    if isinstance(seg, ArraySeg):
                        if seg.elem[0] == 'custom' and seg.elem_static is None:
                            return False
                        if seg.shape[0] == 'size' and seg.shape[1]:
                            return False   # array size modifier: not supported by the Rust backend
                        if seg.elem[0] == 'struct' and not self.supported(seg.elem[1]):
                            return False
                    if isinstance(seg, StructSeg) and not self.supported(seg.decl):
                        return False
                    if isinstance(seg, OptSeg) and seg.inner[0] == 'struct' and not self.supported(seg.inner[1]):
                        return False
                    if isinstance(seg, PayloadSeg) and not seg.sized and seg.trailing is None:
                        return False
            return True
        except KeyError:
            return False

    def ftype(self, f: M.Field) -> str:
        """reference type of a named field"""
        if f.kind == 'scalar':
            t = 'u64'
        elif f.kind == 'typedef':
            k = self.m.kind_of(f.type_id)
            t = f'R_{f.type_id}' if k == 'struct' else 'u64'
        elif f.kind == 'array':
            if f.width is not None or self.m.kind_of(f.type_id) in ('enum', 'custom_field'):
                et = 'u64'
            else:
                et = f'R_{f.type_id}'
            return f'RVec<{et}, {self.acap}>'
        else:
            raise Unsupported(f.kind)
        if f.cond is not None:
            return f'ROpt<{t}>'
        return t

    def fzero(self, f: M.Field) -> str:
        if f.kind == 'array':
            if f.width is not None or self.m.kind_of(f.type_id) in ('enum', 'custom_field'):
                return 'RVec::new(0u64)'
            return f'RVec::new(R_{f.type_id}::new())'
        if f.kind == 'typedef' and self.m.kind_of(f.type_id) == 'struct':
            z = f'R_{f.type_id}::new()'
        else:
            z = '0u64'
        if f.cond is not None:
            return f'ROpt {{ some: false, v: {z} }}'
        return z

    def own_named(self, name) -> List[M.Field]:
        fl = self.m.flags(name)
        return [f for f in self.m.fields[name]
                if f.name and f.kind in ('scalar', 'typedef', 'array') and f.name not in fl]

    def level_of(self, name, fid) -> int:
        for i, n in enumerate(self.m.chain(name)):
            if any(f.name == fid for f in self.own_named(n)):
                return i
        raise KeyError((name, fid))

    def member_expr(self, enum_name, v) -> str:
        conds = []
        for t in self.m.decls[enum_name].tags:
            if isinstance(t, M.TagValue):
                conds.append(f'{v} == {t.value:#x}u64')
            elif isinstance(t, M.TagRange):
                conds.append(f'({v} >= {t.lo:#x}u64 && {v} <= {t.hi:#x}u64)')
        return ' || '.join(conds) if conds else 'false'

    def uint_expr(self, base, n) -> str:
        """u64 from n octets at b[base..] in file byte order (straight-line)"""
        parts = []
        for i in range(n):
            sh = 8 * i if self.m.endian == 'little' else 8 * (n - 1 - i)
            term = f'(b[{base} + {i}] as u64)'
            parts.append(f'({term} << {sh})' if sh else term)
        return ' | '.join(parts) if parts else '0u64'

    # ------------------------------------------------------------------ types
    def emit_types(self, w: W):
        for name in self.types:
            if not self.supported(name):
                continue
            fs = self.own_named(name)
            w.open('#[derive(Clone, Copy)]\npub struct O_%s {' % name)
            for f in fs:
                w(f'pub f_{f.name}: {self.ftype(f)},')
            if self.m.has_payload(name):
                w(f'pub payload: RVec<u8, {self.pcap}>,')
            w.close()
            w.open(f'impl O_{name} {{')
            w.open('pub fn new() -> Self {')
            w.open(f'O_{name} {{')
            for f in fs:
                w(f'f_{f.name}: {self.fzero(f)},')
            if self.m.has_payload(name):
                w('payload: RVec::new(0u8),')
            w.close()
            w.close()
            w.close()
            ch = self.m.chain(name)
            w.open('#[derive(Clone, Copy)]\npub struct R_%s {' % name)
            for i, n in enumerate(ch):
                w(f'pub l{i}: O_{n},')
            w.close()
            w.open(f'impl R_{name} {{')
            w.open('pub fn new() -> Self {')
            w(f'R_{name} {{ ' + ', '.join(f'l{i}: O_{n}::new()' for i, n in enumerate(ch)) + ' }')
            w.close()
            w.close()

    # ------------------------------------------------------------------ decoder
    def _read_fixed(self, w: W, n: int, var: str):
        w(f'if e - p < {n} {{ return Err(Fault::Length); }}')
        w(f'let {var}: u64 = {self.uint_expr("p", n)};')
        w(f'p += {n};')

    def _decode_elem(self, w: W, seg: ArraySeg, wend: str):
        """decode one element from b[p..wend) into `x`"""
        k = seg.elem[0]
        if k in ('scalar', 'enum', 'custom'):
            n = seg.elem_static
            w(f'if {wend} - p < {n} {{ return Err(Fault::Length); }}')
            w(f'let x: u64 = {self.uint_expr("p", n)};')
            w(f'p += {n};')
            if k == 'enum' and not self.m.enum_is_open(seg.elem[1]):
                w(f'if !({self.member_expr(seg.elem[1], "x")}) {{ fl.soft(Fault::Enum); }}')
        else:
            w(f'let (x, used) = rd_any_{seg.elem[1]}(&b[p..{wend}], fl)?;')
            w('p += used;')

    def emit_rd_own(self, w: W, name):
        plan = self.m.plans[name]
        w.open(f'pub fn rd_own_{name}(b: &[u8], fl: &mut Faults) -> Result<(O_{name}, usize), Fault> {{')
        w(f'let mut o = O_{name}::new();')
        w('let mut p: usize = 0;')
        w('let mut e: usize = b.len();')
        for si, seg in enumerate(plan):
            if isinstance(seg, Chunk):
                w(f'if e - p < {seg.nbytes} {{ return Err(Fault::Length); }}')
                w(f'let raw{si}: u64 = {self.uint_expr("p", seg.nbytes)};')
                w(f'p += {seg.nbytes};')
                for it in seg.items:
                    mask = 'u64::MAX' if it.width == 64 else f'{(1 << it.width) - 1:#x}u64'
                    ex = f'(raw{si} >> {it.shift}) & {mask}' if it.shift else f'raw{si} & {mask}'
                    if it.kind == 'scalar':
                        w(f'o.f_{it.name} = {ex};')
                    elif it.kind == 'enum':
                        w(f'let v_{it.name}: u64 = {ex};')
                        if not self.m.enum_is_open(it.enum):
                            w(f'if !({self.member_expr(it.enum, "v_" + it.name)}) {{ fl.soft(Fault::Enum); }}')
                        w(f'o.f_{it.name} = v_{it.name};')
                    elif it.kind in ('fixed_scalar', 'fixed_enum'):
                        w(f'if ({ex}) != {it.value:#x}u64 {{ fl.soft(Fault::Fixed); }}')
                    elif it.kind == 'flag':
                        w(f'let flag_{it.name}: u64 = {ex};')
                    elif it.kind == 'size':
                        w(f'let sz_{it.target.strip("_")}: u64 = {ex};')
                    elif it.kind == 'count':
                        w(f'let cnt_{it.target}: u64 = {ex};')
                    elif it.kind == 'elemsize':
                        w(f'let es_{it.target}: u64 = {ex};')
            elif isinstance(seg, OptSeg):
                w.open(f'if flag_{seg.flag} == {seg.condval} {{')
                if seg.inner[0] in ('scalar', 'enum'):
                    n = seg.inner[1] if seg.inner[0] == 'scalar' else self.m.decls[seg.inner[1]].width // 8
                    self._read_fixed(w, n, 'v')
                    if seg.inner[0] == 'enum' and not self.m.enum_is_open(seg.inner[1]):
                        w(f'if !({self.member_expr(seg.inner[1], "v")}) {{ fl.soft(Fault::Enum); }}')
                    w(f'o.f_{seg.name} = ROpt {{ some: true, v }};')
                else:
                    w(f'let (x, used) = rd_any_{seg.inner[1]}(&b[p..e], fl)?;')
                    w('p += used;')
                    w(f'o.f_{seg.name} = ROpt {{ some: true, v: x }};')
                w.close()
            elif isinstance(seg, StructSeg):
                w(f'let (x{si}, used{si}) = rd_any_{seg.decl}(&b[p..e], fl)?;')
                w(f'p += used{si};')
                w(f'o.f_{seg.name} = x{si};')
            elif isinstance(seg, CustomSeg):
                self._read_fixed(w, seg.nbytes, f'c{si}')
                w(f'o.f_{seg.name} = c{si};')
            elif isinstance(seg, PayloadSeg):
                w.open('{')
                if seg.sized:
                    w('let mut sz: u64 = sz_payload;' if any(
                        it.kind == 'size' and it.target == '_payload_' for s in plan if isinstance(s, Chunk) for it in s.items)
                      else 'let mut sz: u64 = sz_body;')
                    if seg.modifier:
                        w(f'if sz < {seg.modifier} {{ return Err(Fault::Length); }}')
                        w(f'sz -= {seg.modifier};')
                    w('if ((e - p) as u64) < sz { return Err(Fault::Length); }')
                    w('let n: usize = sz as usize;')
                else:
                    w(f'if e - p < {seg.trailing} {{ return Err(Fault::Length); }}')
                    w(f'let n: usize = e - p - {seg.trailing};')
                w('let mut i: usize = 0;')
                w('while i < n { if !o.payload.push(b[p + i]) { return Err(Fault::Cap); } i += 1; }')
                w('p += n;')
                w.close()
            elif isinstance(seg, ArraySeg):
                self._emit_array(w, name, seg)
            else:
                raise Unsupported(type(seg).__name__)
        w('Ok((o, p))')
        w.close()

    def _emit_array(self, w: W, name, seg: ArraySeg):
        w.open('{')
        if seg.padding is not None:
            w(f'if e - p < {seg.padding} {{ return Err(Fault::Length); }}')
            w(f'let p_after: usize = p + {seg.padding};')
            w('let e_outer: usize = e;')
            w(f'e = p + {seg.padding};')
        shape = seg.shape[0]
        push = f'if !o.f_{seg.name}.push(x) {{ return Err(Fault::Cap); }}'
        if seg.has_elemsize:
            w(f'let es: u64 = es_{seg.name};')
            if shape in ('static', 'count'):
                w(f'let cnt: u64 = {seg.shape[1]}u64;' if shape == 'static' else f'let cnt: u64 = cnt_{seg.name};')
            else:
                if shape == 'size':
                    w(f'let total: u64 = sz_{seg.name};')
                    w('if ((e - p) as u64) < total { return Err(Fault::Length); }')
                else:
                    w('let total: u64 = (e - p) as u64;')
                w('if es == 0 && total != 0 { return Err(Fault::ArraySize); }')
                w('if es != 0 && total % es != 0 { return Err(Fault::ArraySize); }')
                w('let cnt: u64 = if es == 0 { 0 } else { total / es };')
            w('if ((e - p) as u128) < (cnt as u128) * (es as u128) { return Err(Fault::Length); }')
            w('let esz: usize = es as usize;')
            w('let mut i: u64 = 0;')
            w.open('while i < cnt {')
            w('let we: usize = p + esz;')
            self._decode_elem(w, seg, 'we')
            w('if p != we { return Err(Fault::TrailingInArray); }')
            w(push)
            w('i += 1;')
            w.close()
        elif shape in ('static', 'count'):
            w(f'let cnt: u64 = {seg.shape[1]}u64;' if shape == 'static' else f'let cnt: u64 = cnt_{seg.name};')
            if seg.elem_static is not None:
                w(f'if ((e - p) as u128) < (cnt as u128) * {seg.elem_static}u128 {{ return Err(Fault::Length); }}')
            w('let mut i: u64 = 0;')
            w.open('while i < cnt {')
            self._decode_elem(w, seg, 'e')
            w(push)
            w('i += 1;')
            w.close()
        else:
            if shape == 'size':
                w(f'let sz: u64 = sz_{seg.name};')
                w('if ((e - p) as u64) < sz { return Err(Fault::Length); }')
                w('let we: usize = p + sz as usize;')
            else:
                w('let we: usize = e;')
            if seg.elem_static is not None and seg.elem_static != 1:
                w(f'if (we - p) % {seg.elem_static} != 0 {{ return Err(Fault::ArraySize); }}')
            w.open('while p < we {')
            self._decode_elem(w, seg, 'we')
            w(push)
            w.close()
        if seg.padding is not None:
            w('p = p_after;')
            w('e = e_outer;')
        w.close()

    def emit_rd_any(self, w: W, name):
        ch = self.m.chain(name)
        w.open(f'pub fn rd_any_{name}(b: &[u8], fl: &mut Faults) -> Result<(R_{name}, usize), Fault> {{')
        w(f'let (l0, used) = rd_own_{ch[0]}(b, fl)?;')
        for i in range(1, len(ch)):
            n = ch[i]
            for k, v in self.m.decls[n].constraints:
                lv = self.level_of(n, k)
                val = self.m.constraint_value(n, k, v)
                w(f'if l{lv}.f_{k} != {val:#x}u64 {{ fl.soft(Fault::Constraint); }}')
            if self.m.has_payload(ch[i - 1]):
                w(f'let pl{i}: &[u8] = &l{i - 1}.payload.items[..l{i - 1}.payload.len];')
                w(f'let (l{i}, u{i}) = rd_own_{n}(pl{i}, fl)?;')
                w(f'if u{i} != pl{i}.len() {{ fl.soft(Fault::Trailing); }}')
            else:
                w(f'let l{i} = O_{n}::new();')
        w(f'Ok((R_{name} {{ ' + ', '.join(f'l{i}' for i in range(len(ch))) + ' }, used))')
        w.close()
        # top-level wrapper
        w.open(f'pub fn ref_decode_{name}(b: &[u8]) -> RefDec<R_{name}> {{')
        w('let mut fl = Faults::new();')
        w.open(f'match rd_any_{name}(b, &mut fl) {{')
        w('Ok((v, used)) => RefDec { ok: fl.count == 0, cap: false, v, used, first: fl.first, count: fl.count },')
        w(f'Err(Fault::Cap) => RefDec {{ ok: false, cap: true, v: R_{name}::new(), used: 0, first: Fault::Cap, count: 0 }},')
        w(f'Err(f) => RefDec {{ ok: false, cap: false, v: R_{name}::new(), used: 0, '
          'first: if fl.count == 0 { f } else { fl.first }, count: fl.count + 1 },')
        w.close()
        w.close()

    # ------------------------------------------------------------------ comparison with generated values
    def _eq_scalarlike(self, f: M.Field, gv: str, rv: str) -> str:
        """gv: expression of generated value (by value), rv: reference u64/R_ expression"""
        if f.kind == 'scalar' or (f.kind == 'array' and f.width is not None):
            return f'(({gv}) as u64) == {rv}'
        k = self.m.kind_of(f.type_id)
        if k == 'enum':
            return f'u64::from({gv}) == {rv}'
        if k == 'custom_field':
            bt = backing(self.m.decls[f.type_id].width)
            return f'(u{bt}::from({gv}) as u64) == {rv}'
        raise Unsupported(k)

    def emit_eq(self, w: W, name):
        w.open(f'pub fn eq_{name}(v: &{name}, r: &R_{name}) -> bool {{')
        w('let mut ok = true;')
        for decl_name, f in self.m.data_fields(name):
            lv = self.m.chain(name).index(decl_name)
            r = f'r.l{lv}.f_{f.name}'
            g = f'v.{f.name}'
            if f.kind == 'array':
                w.open('{')
                w(f'if {g}.len() != {r}.len {{ return false; }}')
                w('let mut i: usize = 0;')
                w.open(f'while i < {r}.len {{')
                if f.width is not None or self.m.kind_of(f.type_id) in ('enum', 'custom_field'):
                    w(f'ok &= {self._eq_scalarlike(f, g + "[i]", r + ".items[i]")};')
                else:
                    w(f'ok &= eq_{f.type_id}(&{g}[i], &{r}.items[i]);')
                w('i += 1;')
                w.close()
                w.close()
            elif f.cond is not None:
                w.open(f'match &{g} {{')
                w(f'None => {{ ok &= !{r}.some; }}')
                if f.kind == 'typedef' and self.m.kind_of(f.type_id) == 'struct':
                    w(f'Some(x) => {{ ok &= {r}.some && eq_{f.type_id}(x, &{r}.v); }}')
                else:
                    w(f'Some(x) => {{ ok &= {r}.some && ({self._eq_scalarlike(f, "*x", r + ".v")}); }}')
                w.close()
            elif f.kind == 'typedef' and self.m.kind_of(f.type_id) == 'struct':
                w(f'ok &= eq_{f.type_id}(&{g}, &{r});')
            else:
                w(f'ok &= {self._eq_scalarlike(f, g, r)};')
        if self.m.has_payload(name):
            lv = len(self.m.chain(name)) - 1
            w(f'ok &= bytes_eq(&v.payload, &r.l{lv}.payload.items[..r.l{lv}.payload.len]);')
        w('ok')
        w.close()

    # ------------------------------------------------------------------ all
    def emit_decode_side(self) -> str:
        w = W()
        w('pub struct RefDec<T> { pub ok: bool, pub cap: bool, pub v: T, pub used: usize, pub first: Fault, pub count: u32 }')
        self.emit_types(w)
        for name in self.types:
            if self.supported(name):
                self.emit_rd_own(w, name)
        for name in self.types:
            if self.supported(name):
                self.emit_rd_any(w, name)
                self.emit_eq(w, name)
        return w.text()
