"""Print the reference model (vlib.ref layout plans) as heap-free Rust for the
Kani harness crate: value types, decoder, encoder, well-formedness, comparison
with the generated types, construction of generated values.

Everything is straight-line code or loops bounded by the fixed capacities
ACAP (array elements) / PCAP (payload octets); exceeding a capacity yields
Fault::Cap, which harnesses assume away (outside the bound, stated).
"""
from __future__ import annotations

from typing import List

from . import model as M
from .ref import (Model, Chunk, ArraySeg, PayloadSeg, OptSeg, StructSeg, CustomSeg, ChecksumStart, ChecksumValue,
                  Unsupported)


def backing(width):
    for w in (8, 16, 32, 64):
        if width <= w:
            return w
    raise ValueError(width)


def camel(tag: str) -> str:
    """heck::ToUpperCamelCase as used by the generator for enum tags"""
    out, word = [], ''
    prev_lower = False
    words = []
    cur = ''
    for ch in tag:
        if ch == '_':
            if cur:
                words.append(cur)
            cur = ''
            prev_lower = False
            continue
        if ch.isupper() and prev_lower:
            words.append(cur)
            cur = ch
        else:
            cur += ch
        prev_lower = ch.islower() or ch.isdigit()
    if cur:
        words.append(cur)
    return ''.join(w[:1].upper() + w[1:].lower() for w in words)


class W:
    def __init__(self):
        self.lines: List[str] = []
        self.ind = 0

    def __call__(self, s=''):
        for ln in s.split('\n'):
            self.lines.append(('    ' * self.ind + ln) if ln else '')

    def open(self, s):
        self(s)
        self.ind += 1

    def close(self, s='}'):
        self.ind -= 1
        self(s)

    def text(self):
        return '\n'.join(self.lines) + '\n'


class RustRef:
    def __init__(self, mdl: Model, acap: int, pcap: int, ocap: int):
        self.m = mdl
        self.acap, self.pcap, self.ocap = acap, pcap, ocap
        self.kdraw, self.pdraw = 2, 2       # elements / payload octets drawn by draw_<T>
        self.mcmp = 16                      # octets compared by bytes_eq_m
        self.big = 'true' if mdl.endian == 'big' else 'false'
        self.types = [n for n in mdl.plans]          # packets and structs, declaration order
        self.order = self._topo()

    # ------------------------------------------------------------------ helpers
    def _topo(self):
        """declaration order such that referenced struct types come first (readability only)"""
        return list(self.types)

    def supported(self, name) -> bool:
        try:
            for n in self.m.chain(name):
                for seg in self.m.plans[n]:
                    if isinstance(seg, (ChecksumStart, ChecksumValue)):
                        return False
                    if isinstance(seg, CustomSeg) and seg.nbytes is None:
                        return False
                    if isinstance(seg, ArraySeg):
                        if seg.elem[0] == 'custom' and seg.elem_static is None:
                            return False
                        if seg.shape[0] == 'size' and seg.shape[1]:
                            return False   # array size modifier: not supported by the Rust backend
                        if seg.elem[0] == 'struct' and not self.supported(seg.elem[1]):
                            return False
                    if isinstance(seg, StructSeg) and not self.supported(seg.decl):
                        return False
                    if isinstance(seg, OptSeg) and seg.inner[0] == 'struct' and not self.supported(seg.inner[1]):
                        return False
                    if isinstance(seg, PayloadSeg) and not seg.sized and seg.trailing is None:
                        return False
            return True
        except KeyError:
            return False

    def ftype(self, f: M.Field) -> str:
        """reference type of a named field"""
        if f.kind == 'scalar':
            t = 'u64'
        elif f.kind == 'typedef':
            k = self.m.kind_of(f.type_id)
            t = f'R_{f.type_id}' if k == 'struct' else 'u64'
        elif f.kind == 'array':
            if f.width is not None or self.m.kind_of(f.type_id) in ('enum', 'custom_field'):
                et = 'u64'
            else:
                et = f'R_{f.type_id}'
            return f'RVec<{et}, {self.acap}>'
        else:
            raise Unsupported(f.kind)
        if f.cond is not None:
            return f'ROpt<{t}>'
        return t

    def fzero(self, f: M.Field) -> str:
        if f.kind == 'array':
            if f.width is not None or self.m.kind_of(f.type_id) in ('enum', 'custom_field'):
                return 'RVec::new(0u64)'
            return f'RVec::new(R_{f.type_id}::new())'
        if f.kind == 'typedef' and self.m.kind_of(f.type_id) == 'struct':
            z = f'R_{f.type_id}::new()'
        else:
            z = '0u64'
        if f.cond is not None:
            return f'ROpt {{ some: false, v: {z} }}'
        return z

    def own_named(self, name) -> List[M.Field]:
        fl = self.m.flags(name)
        return [f for f in self.m.fields[name]
                if f.name and f.kind in ('scalar', 'typedef', 'array') and f.name not in fl]

    def level_of(self, name, fid) -> int:
        for i, n in enumerate(self.m.chain(name)):
            if any(f.name == fid for f in self.own_named(n)):
                return i
        raise KeyError((name, fid))

    def member_expr(self, enum_name, v) -> str:
        conds = []
        for t in self.m.decls[enum_name].tags:
            if isinstance(t, M.TagValue):
                conds.append(f'{v} == {t.value:#x}u64')
            elif isinstance(t, M.TagRange):
                conds.append(f'({v} >= {t.lo:#x}u64 && {v} <= {t.hi:#x}u64)')
        return ' || '.join(conds) if conds else 'false'

    def uint_expr(self, base, n) -> str:
        """u64 from n octets at b[base..] in file byte order (straight-line)"""
        parts = []
        for i in range(n):
            sh = 8 * i if self.m.endian == 'little' else 8 * (n - 1 - i)
            term = f'(b[{base} + {i}] as u64)'
            parts.append(f'({term} << {sh})' if sh else term)
        return ' | '.join(parts) if parts else '0u64'

    # ------------------------------------------------------------------ types
    def emit_types(self, w: W):
        for name in self.types:
            if not self.supported(name):
                continue
            fs = self.own_named(name)
            w.open('#[derive(Clone, Copy)]\npub struct O_%s {' % name)
            for f in fs:
                w(f'pub f_{f.name}: {self.ftype(f)},')
            if self.m.has_payload(name):
                w(f'pub payload: RVec<u8, {self.pcap}>,')
            w.close()
            w.open(f'impl O_{name} {{')
            w.open('pub fn new() -> Self {')
            w.open(f'O_{name} {{')
            for f in fs:
                w(f'f_{f.name}: {self.fzero(f)},')
            if self.m.has_payload(name):
                w('payload: RVec::new(0u8),')
            w.close()
            w.close()
            w.close()
            ch = self.m.chain(name)
            w.open('#[derive(Clone, Copy)]\npub struct R_%s {' % name)
            for i, n in enumerate(ch):
                w(f'pub l{i}: O_{n},')
            w.close()
            w.open(f'impl R_{name} {{')
            w.open('pub fn new() -> Self {')
            w(f'R_{name} {{ ' + ', '.join(f'l{i}: O_{n}::new()' for i, n in enumerate(ch)) + ' }')
            w.close()
            w.close()

    # ------------------------------------------------------------------ decoder
    def _read_fixed(self, w: W, n: int, var: str):
        w(f'if e - p < {n} {{ return Err(Fault::Length); }}')
        w(f'let {var}: u64 = {self.uint_expr("p", n)};')
        w(f'p += {n};')

    def _decode_elem(self, w: W, seg: ArraySeg, wend: str):
        """decode one element from b[p..wend) into `x`"""
        k = seg.elem[0]
        if k in ('scalar', 'enum', 'custom'):
            n = seg.elem_static
            w(f'if {wend} - p < {n} {{ return Err(Fault::Length); }}')
            w(f'let x: u64 = {self.uint_expr("p", n)};')
            w(f'p += {n};')
            if k == 'enum' and not self.m.enum_is_open(seg.elem[1]):
                w(f'if !({self.member_expr(seg.elem[1], "x")}) {{ fl.soft(Fault::Enum); }}')
        else:
            w(f'let (x, used) = rd_any_{seg.elem[1]}(&b[p..{wend}], fl)?;')
            w('p += used;')

    def emit_rd_own(self, w: W, name):
        plan = self.m.plans[name]
        w.open(f'pub fn rd_own_{name}(b: &[u8], fl: &mut Faults) -> Result<(O_{name}, usize), Fault> {{')
        w(f'let mut o = O_{name}::new();')
        w('let mut p: usize = 0;')
        w('let mut e: usize = b.len();')
        for si, seg in enumerate(plan):
            if isinstance(seg, Chunk):
                w(f'if e - p < {seg.nbytes} {{ return Err(Fault::Length); }}')
                w(f'let raw{si}: u64 = {self.uint_expr("p", seg.nbytes)};')
                w(f'p += {seg.nbytes};')
                for it in seg.items:
                    mask = 'u64::MAX' if it.width == 64 else f'{(1 << it.width) - 1:#x}u64'
                    ex = f'(raw{si} >> {it.shift}) & {mask}' if it.shift else f'raw{si} & {mask}'
                    if it.kind == 'scalar':
                        w(f'o.f_{it.name} = {ex};')
                    elif it.kind == 'enum':
                        w(f'let v_{it.name}: u64 = {ex};')
                        if not self.m.enum_is_open(it.enum):
                            w(f'if !({self.member_expr(it.enum, "v_" + it.name)}) {{ fl.soft(Fault::Enum); }}')
                        w(f'o.f_{it.name} = v_{it.name};')
                    elif it.kind in ('fixed_scalar', 'fixed_enum'):
                        w(f'if ({ex}) != {it.value:#x}u64 {{ fl.soft(Fault::Fixed); }}')
                    elif it.kind == 'flag':
                        w(f'let flag_{it.name}: u64 = {ex};')
                    elif it.kind == 'size':
                        w(f'let sz_{it.target.strip("_")}: u64 = {ex};')
                    elif it.kind == 'count':
                        w(f'let cnt_{it.target}: u64 = {ex};')
                    elif it.kind == 'elemsize':
                        w(f'let es_{it.target}: u64 = {ex};')
            elif isinstance(seg, OptSeg):
                w.open(f'if flag_{seg.flag} == {seg.condval} {{')
                if seg.inner[0] in ('scalar', 'enum'):
                    n = seg.inner[1] if seg.inner[0] == 'scalar' else self.m.decls[seg.inner[1]].width // 8
                    self._read_fixed(w, n, 'v')
                    if seg.inner[0] == 'enum' and not self.m.enum_is_open(seg.inner[1]):
                        w(f'if !({self.member_expr(seg.inner[1], "v")}) {{ fl.soft(Fault::Enum); }}')
                    w(f'o.f_{seg.name} = ROpt {{ some: true, v }};')
                else:
                    w(f'let (x, used) = rd_any_{seg.inner[1]}(&b[p..e], fl)?;')
                    w('p += used;')
                    w(f'o.f_{seg.name} = ROpt {{ some: true, v: x }};')
                w.close()
            elif isinstance(seg, StructSeg):
                w(f'let (x{si}, used{si}) = rd_any_{seg.decl}(&b[p..e], fl)?;')
                w(f'p += used{si};')
                w(f'o.f_{seg.name} = x{si};')
            elif isinstance(seg, CustomSeg):
                self._read_fixed(w, seg.nbytes, f'c{si}')
                w(f'o.f_{seg.name} = c{si};')
            elif isinstance(seg, PayloadSeg):
                w.open('{')
                if seg.sized:
                    w('let mut sz: u64 = sz_payload;' if any(
                        it.kind == 'size' and it.target == '_payload_' for s in plan if isinstance(s, Chunk) for it in s.items)
                      else 'let mut sz: u64 = sz_body;')
                    if seg.modifier:
                        w(f'if sz < {seg.modifier} {{ return Err(Fault::Length); }}')
                        w(f'sz -= {seg.modifier};')
                    w('if ((e - p) as u64) < sz { return Err(Fault::Length); }')
                    w('let n: usize = sz as usize;')
                else:
                    w(f'if e - p < {seg.trailing} {{ return Err(Fault::Length); }}')
                    w(f'let n: usize = e - p - {seg.trailing};')
                w('let mut i: usize = 0;')
                w('while i < n { if !o.payload.push(b[p + i]) { return Err(Fault::Cap); } i += 1; }')
                w('p += n;')
                w.close()
            elif isinstance(seg, ArraySeg):
                self._emit_array(w, name, seg)
            else:
                raise Unsupported(type(seg).__name__)
        w('Ok((o, p))')
        w.close()

    def _emit_array(self, w: W, name, seg: ArraySeg):
        w.open('{')
        if seg.padding is not None:
            w(f'if e - p < {seg.padding} {{ return Err(Fault::Length); }}')
            w(f'let p_after: usize = p + {seg.padding};')
            w('let e_outer: usize = e;')
            w(f'e = p + {seg.padding};')
        shape = seg.shape[0]
        push = f'if !o.f_{seg.name}.push(x) {{ return Err(Fault::Cap); }}'
        if seg.has_elemsize:
            w(f'let es: u64 = es_{seg.name};')
            if shape in ('static', 'count'):
                w(f'let cnt: u64 = {seg.shape[1]}u64;' if shape == 'static' else f'let cnt: u64 = cnt_{seg.name};')
            else:
                if shape == 'size':
                    w(f'let total: u64 = sz_{seg.name};')
                    w('if ((e - p) as u64) < total { return Err(Fault::Length); }')
                else:
                    w('let total: u64 = (e - p) as u64;')
                w('if es == 0 && total != 0 { return Err(Fault::ArraySize); }')
                w('if es != 0 && total % es != 0 { return Err(Fault::ArraySize); }')
                w('let cnt: u64 = if es == 0 { 0 } else { total / es };')
            w('if ((e - p) as u128) < (cnt as u128) * (es as u128) { return Err(Fault::Length); }')
            w('let esz: usize = es as usize;')
            w('let mut i: u64 = 0;')
            w.open('while i < cnt {')
            w('let we: usize = p + esz;')
            self._decode_elem(w, seg, 'we')
            w('if p != we { return Err(Fault::TrailingInArray); }')
            w(push)
            w('i += 1;')
            w.close()
        elif shape in ('static', 'count'):
            w(f'let cnt: u64 = {seg.shape[1]}u64;' if shape == 'static' else f'let cnt: u64 = cnt_{seg.name};')
            if seg.elem_static is not None:
                w(f'if ((e - p) as u128) < (cnt as u128) * {seg.elem_static}u128 {{ return Err(Fault::Length); }}')
            w('let mut i: u64 = 0;')
            w.open('while i < cnt {')
            self._decode_elem(w, seg, 'e')
            w(push)
            w('i += 1;')
            w.close()
        else:
            if shape == 'size':
                w(f'let sz: u64 = sz_{seg.name};')
                w('if ((e - p) as u64) < sz { return Err(Fault::Length); }')
                w('let we: usize = p + sz as usize;')
            else:
                w('let we: usize = e;')
            if seg.elem_static is not None and seg.elem_static != 1:
                w(f'if (we - p) % {seg.elem_static} != 0 {{ return Err(Fault::ArraySize); }}')
            w.open('while p < we {')
            self._decode_elem(w, seg, 'we')
            w(push)
            w.close()
        if seg.padding is not None:
            w('p = p_after;')
            w('e = e_outer;')
        w.close()

    def emit_rd_any(self, w: W, name):
        ch = self.m.chain(name)
        w.open(f'pub fn rd_any_{name}(b: &[u8], fl: &mut Faults) -> Result<(R_{name}, usize), Fault> {{')
        w(f'let (l0, used) = rd_own_{ch[0]}(b, fl)?;')
        for i in range(1, len(ch)):
            n = ch[i]
            for k, v in self.m.decls[n].constraints:
                lv = self.level_of(n, k)
                val = self.m.constraint_value(n, k, v)
                w(f'if l{lv}.f_{k} != {val:#x}u64 {{ fl.soft(Fault::Constraint); }}')
            if self.m.has_payload(ch[i - 1]):
                w(f'let pl{i}: &[u8] = &l{i - 1}.payload.items[..l{i - 1}.payload.len];')
                w(f'let (l{i}, u{i}) = rd_own_{n}(pl{i}, fl)?;')
                w(f'if u{i} != pl{i}.len() {{ fl.soft(Fault::Trailing); }}')
            else:
                w(f'let l{i} = O_{n}::new();')
        w(f'Ok((R_{name} {{ ' + ', '.join(f'l{i}' for i in range(len(ch))) + ' }, used))')
        w.close()
        # top-level wrapper
        w.open(f'pub fn ref_decode_{name}(b: &[u8]) -> RefDec<R_{name}> {{')
        w('let mut fl = Faults::new();')
        w.open(f'match rd_any_{name}(b, &mut fl) {{')
        w('Ok((v, used)) => RefDec { ok: fl.count == 0, cap: false, v, used, first: fl.first, count: fl.count },')
        w(f'Err(Fault::Cap) => RefDec {{ ok: false, cap: true, v: R_{name}::new(), used: 0, first: Fault::Cap, count: 0 }},')
        w(f'Err(f) => RefDec {{ ok: false, cap: false, v: R_{name}::new(), used: 0, '
          'first: if fl.count == 0 { f } else { fl.first }, count: fl.count + 1 },')
        w.close()
        w.close()

    # ------------------------------------------------------------------ comparison with generated values
    def _eq_scalarlike(self, f: M.Field, gv: str, rv: str) -> str:
        """gv: expression of generated value (by value), rv: reference u64/R_ expression"""
        if f.kind == 'scalar' or (f.kind == 'array' and f.width is not None):
            return f'(({gv}) as u64) == {rv}'
        k = self.m.kind_of(f.type_id)
        if k == 'enum':
            return f'u64::from({gv}) == {rv}'
        if k == 'custom_field':
            bt = backing(self.m.decls[f.type_id].width)
            return f'(u{bt}::from({gv}) as u64) == {rv}'
        raise Unsupported(k)

    def emit_eq(self, w: W, name):
        w.open(f'pub fn eq_{name}(v: &{name}, r: &R_{name}) -> bool {{')
        w('let mut ok = true;')
        for decl_name, f in self.m.data_fields(name):
            lv = self.m.chain(name).index(decl_name)
            r = f'r.l{lv}.f_{f.name}'
            g = f'v.{f.name}'
            if f.kind == 'array':
                w.open('{')
                w(f'if {g}.len() != {r}.len {{ return false; }}')
                w('let mut i: usize = 0;')
                w.open(f'while i < {r}.len {{')
                if f.width is not None or self.m.kind_of(f.type_id) in ('enum', 'custom_field'):
                    w(f'ok &= {self._eq_scalarlike(f, g + "[i]", r + ".items[i]")};')
                else:
                    w(f'ok &= eq_{f.type_id}(&{g}[i], &{r}.items[i]);')
                w('i += 1;')
                w.close()
                w.close()
            elif f.cond is not None:
                w.open(f'match &{g} {{')
                w(f'None => {{ ok &= !{r}.some; }}')
                if f.kind == 'typedef' and self.m.kind_of(f.type_id) == 'struct':
                    w(f'Some(x) => {{ ok &= {r}.some && eq_{f.type_id}(x, &{r}.v); }}')
                else:
                    w(f'Some(x) => {{ ok &= {r}.some && ({self._eq_scalarlike(f, "*x", r + ".v")}); }}')
                w.close()
            elif f.kind == 'typedef' and self.m.kind_of(f.type_id) == 'struct':
                w(f'ok &= eq_{f.type_id}(&{g}, &{r});')
            else:
                w(f'ok &= {self._eq_scalarlike(f, g, r)};')
        if self.m.has_payload(name):
            lv = len(self.m.chain(name)) - 1
            w(f'ok &= bytes_eq(&v.payload, &r.l{lv}.payload.items[..r.l{lv}.payload.len]);')
        w('ok')
        w.close()

    # ------------------------------------------------------------------ C06: specialization oracle
    def spec_cases(self, P):
        """per direct child X of P: [(constraints restricted to P's data fields, own static octets or None)]
        for X and every descendant of X; with_size: two children share a constraint tuple"""
        data = {f.name for _, f in self.m.data_fields(P)}
        cases = {}

        def walk(root, n, acc):
            acc = dict(acc)
            for k, v in self.m.decls[n].constraints:
                if k in data:
                    acc[k] = self.m.constraint_value(n, k, v)
            bits = self.m._own_static_bits(n, (), count_payload=True)
            cases.setdefault(root, []).append((acc, None if bits is None else bits // 8))
            for c in self.m.children(n):
                walk(root, c, acc)
        for X in self.m.children(P):
            walk(X, X, {})
        seen = {}
        with_size = False
        for X, cs in cases.items():
            for acc, _ in cs:
                key = tuple(sorted(acc.items()))
                if key in seen and seen[key] != X:
                    with_size = True
                seen.setdefault(key, X)
        return cases, with_size

    def emit_spec(self, w: W, P):
        kids = self.m.children(P)
        if not kids or not all(self.supported(k) for k in kids):
            return
        ch = self.m.chain(P)
        lvP = len(ch) - 1
        has_pl = self.m.has_payload(P)
        cases, with_size = self.spec_cases(P)
        for X in kids:
            w.open(f'pub fn ref_try_{P}_{X}(r: &R_{P}) -> (bool, bool, R_{X}) {{')
            conds = []
            for k, v in self.m.decls[X].constraints:
                lv = self.level_of(X, k)
                conds.append(f'r.l{lv}.f_{k} == {self.m.constraint_value(X, k, v):#x}u64')
            w(f'let cons_ok: bool = {" && ".join(conds) if conds else "true"};')
            w(f'let mut x = R_{X}::new();')
            for i in range(len(ch)):
                w(f'x.l{i} = r.l{i};')
            if has_pl:
                w('let mut fl = Faults::new();')
                w(f'let pl: &[u8] = &r.l{lvP}.payload.items[..r.l{lvP}.payload.len];')
                w.open(f'let parse_ok: bool = match rd_own_{X}(pl, &mut fl) {{')
                w(f'Ok((o, used)) => {{ x.l{lvP + 1} = o; used == pl.len() && fl.count == 0 }}')
                w('Err(_) => false,')
                w.close('};')
            else:
                w('let parse_ok: bool = true;')
            w('(cons_ok, parse_ok, x)')
            w.close()
        w.open(f'pub fn ref_spec_{P}(r: &R_{P}) -> (i32, bool) {{')
        w(f'let pl_len: usize = {f"r.l{lvP}.payload.len" if has_pl else "0"};')
        for k, X in enumerate(kids):
            alts = []
            for acc, sz in cases[X]:
                cs = [f'r.l{self.level_of(P, f)}.f_{f} == {v:#x}u64' for f, v in sorted(acc.items())]
                if with_size and sz is not None:
                    cs.append(f'pl_len == {sz}')
                alts.append('(' + (' && '.join(cs) if cs else 'true') + ')')
            w(f'let m{k}: bool = {" || ".join(alts)};')
        w('let cnt: i32 = ' + ' + '.join(f'(m{k} as i32)' for k in range(len(kids))) + ';')
        w('if cnt == 0 { return (-1, false); }')
        w('if cnt > 1 { return (-2, false); }')
        for k, X in enumerate(kids):
            w(f'if m{k} {{ let t = ref_try_{P}_{X}(r); return ({k}, t.0 && t.1); }}')
        w('(-1, false)')
        w.close()

    # ------------------------------------------------------------------ all
    def emit_decode_side(self) -> str:
        w = W()
        w('pub struct RefDec<T> { pub ok: bool, pub cap: bool, pub v: T, pub used: usize, pub first: Fault, pub count: u32 }')
        self.emit_types(w)
        for name in self.types:
            if self.supported(name):
                self.emit_rd_own(w, name)
        for name in self.types:
            if self.supported(name):
                self.emit_rd_any(w, name)
                self.emit_eq(w, name)
        for name in self.types:
            if self.supported(name):
                self.emit_spec(w, name)
        return w.text()


# ===================================================================== encode side
def _bmask(width):
    b = backing(width)
    return 'u64::MAX' if b == 64 else f'{(1 << b) - 1:#x}u64'


def _wmask(width):
    return 'u64::MAX' if width == 64 else f'{(1 << width) - 1:#x}u64'


class _Enc:
    """mix-in methods of RustRef for the value-driven harnesses (draw / build / wf / encode)"""

    def put_uint(self, v: str, n: int) -> str:
        """straight-line: n octets of the u64 expression v in file byte order"""
        outs = []
        for i in range(n):
            sh = 8 * i if self.m.endian == 'little' else 8 * (n - 1 - i)
            outs.append(f'out.put((pv >> {sh}) as u8);' if sh else 'out.put(pv as u8);')
        return '{ let pv: u64 = ' + v + '; ' + ' '.join(outs) + ' }'

    def emit_cmp(self, w: W):
        """straight-line comparison of two buffers up to MCMP octets"""
        w.open(f'pub fn bytes_eq_m(a: &[u8], alen: usize, b: &[u8], blen: usize) -> bool {{')
        w('if alen != blen { return false; }')
        w('let mut ok = true;')
        for i in range(self.mcmp):
            w(f'if {i} < alen {{ ok &= a[{i}] == b[{i}]; }}')
        w('ok')
        w.close()

    # ---- draw: arbitrary reference value, every draw is one u64 word in a static order
    def emit_draw(self, w: W, name):
        ch = self.m.chain(name)
        cs = self.m.all_constraints(name)
        w.open(f'pub fn draw_{name}<S: Src>(s: &mut S, k: usize, p: usize, ok: &mut bool) -> R_{name} {{')
        w(f'let mut r = R_{name}::new();')
        for lv, n in enumerate(ch):
            flags = self.m.flags(n)
            for fl in flags:
                w(f'let flag_{lv}_{fl}: u64 = s.word() & 1;')
            for f in self.own_named(n):
                tgt = f'r.l{lv}.f_{f.name}'
                if f.name in cs:
                    w(f'{tgt} = {self.m.constraint_value(name, f.name, cs[f.name]):#x}u64;')
                    continue
                if f.cond is not None:
                    # a flag shared by several optional fields: the presence of every field after the first is drawn
                    # independently (flag xor one more bit), so contradictory Option patterns are part of the value space
                    if flags[f.cond[0]][0][0] != f.name:
                        w(f'let pres_{lv}_{f.name}: u64 = flag_{lv}_{f.cond[0]} ^ (s.word() & 1);')
                        w.open(f'if pres_{lv}_{f.name} == {f.cond[1]} {{')
                    else:
                        w.open(f'if flag_{lv}_{f.cond[0]} == {f.cond[1]} {{')
                    w(f'{tgt} = ROpt {{ some: true, v: {self._draw_expr(f)} }};')
                    w.close()
                elif f.kind == 'array':
                    if f.count is not None:
                        w(f'let n_{lv}_{f.name}: usize = {f.count};')
                    else:
                        w(f'let n_{lv}_{f.name}: usize = (s.word() & 0xff) as usize;')
                        w(f'if n_{lv}_{f.name} > k {{ *ok = false; }}')
                    w(f'let mut i: usize = 0;')
                    w.open(f'while i < {self.kdraw if f.count is None else f.count} {{')
                    w(f'let x = {self._draw_expr(f)};')
                    w(f'if i < n_{lv}_{f.name} {{ {tgt}.push(x); }}')
                    w('i += 1;')
                    w.close()
                else:
                    w(f'{tgt} = {self._draw_expr(f)};')
            if n == ch[-1] and self.m.has_payload(n):
                w(f'let npl: usize = (s.word() & 0xff) as usize;')
                w('if npl > p { *ok = false; }')
                w('let mut i: usize = 0;')
                w.open(f'while i < {self.pdraw} {{')
                w('let x = (s.word() & 0xff) as u8;')
                w(f'if i < npl {{ r.l{lv}.payload.push(x); }}')
                w('i += 1;')
                w.close()
        w('r')
        w.close()

    def _draw_expr(self, f: M.Field) -> str:
        if f.kind == 'scalar' or (f.kind == 'array' and f.width is not None):
            return f'(s.word() & {_bmask(f.width)})'
        k = self.m.kind_of(f.type_id)
        d = self.m.decls[f.type_id]
        if k in ('enum', 'custom_field'):
            return f'(s.word() & {_bmask(d.width)})'
        return f'draw_{f.type_id}(s, k, p, ok)'

    # ---- build the generated value from a reference value
    def _build_scalarlike(self, f: M.Field, r: str) -> str:
        """expression of the generated field type from the u64 `r`; may `return None`"""
        if f.kind == 'scalar' or (f.kind == 'array' and f.width is not None):
            return f'({r} as u{backing(f.width)})'
        d = self.m.decls[f.type_id]
        bt = backing(d.width)
        if d.kind == 'enum':
            return f'(match {f.type_id}::try_from({r} as u{bt}) {{ Ok(e) => e, Err(_) => return None }})'
        if d.kind == 'custom_field':
            if d.width in (8, 16, 32, 64):
                return f'{f.type_id}::from({r} as u{bt})'
            return f'(match {f.type_id}::try_from({r} as u{bt}) {{ Ok(e) => e, Err(_) => return None }})'
        raise Unsupported(d.kind)

    def emit_build(self, w: W, name):
        w.open(f'pub fn build_{name}(r: &R_{name}) -> Option<{name}> {{')
        inits = []
        for decl_name, f in self.m.data_fields(name):
            lv = self.m.chain(name).index(decl_name)
            r = f'r.l{lv}.f_{f.name}'
            v = f'g_{f.name}'
            is_struct = f.type_id is not None and self.m.kind_of(f.type_id) == 'struct'
            if f.kind == 'array':
                elem = (lambda x: f'build_{f.type_id}(&{x})?') if is_struct else (lambda x: self._build_scalarlike(f, x))
                if f.count is not None:
                    w(f'if {r}.len != {f.count} {{ return None; }}')
                    w(f'let {v} = [' + ', '.join(elem(f'{r}.items[{i}]') for i in range(f.count)) + '];')
                else:
                    w(f'let mut {v} = Vec::new();')
                    w(f'{{ let mut i: usize = 0; while i < {r}.len {{ {v}.push({elem(r + ".items[i]")}); i += 1; }} }}')
            elif f.cond is not None:
                inner = f'build_{f.type_id}(&{r}.v)?' if is_struct else self._build_scalarlike(f, r + '.v')
                w(f'let {v} = if {r}.some {{ Some({inner}) }} else {{ None }};')
            elif is_struct:
                w(f'let {v} = build_{f.type_id}(&{r})?;')
            else:
                w(f'let {v} = {self._build_scalarlike(f, r)};')
            inits.append(f'{f.name}: {v}')
        if self.m.has_payload(name):
            lv = len(self.m.chain(name)) - 1
            w('let mut g_payload: Vec<u8> = Vec::new();')
            w(f'{{ let mut i: usize = 0; while i < r.l{lv}.payload.len {{ g_payload.push(r.l{lv}.payload.items[i]); i += 1; }} }}')
            inits.append('payload: g_payload')
        w(f'Some({name} {{ ' + ', '.join(inits) + ' })')
        w.close()

    # ---- sizes, well-formedness, encoding of one declaration level
    def _elem_len(self, seg: ArraySeg, x: str) -> str:
        if seg.elem[0] == 'struct':
            return f'ref_len_{seg.elem[1]}(&{x})'
        return str(seg.elem_static)

    def emit_own(self, w: W, n):
        plan = self.m.plans[n]
        big = self.big
        arrays = [s for s in plan if isinstance(s, ArraySeg)]
        # ---- length
        w.open(f'pub fn len_own_{n}(o: &O_{n}, pl_len: usize) -> usize {{')
        w('let mut t: usize = 0;')
        for seg in plan:
            if isinstance(seg, Chunk):
                w(f't += {seg.nbytes};')
            elif isinstance(seg, OptSeg):
                if seg.inner[0] == 'scalar':
                    w(f'if o.f_{seg.name}.some {{ t += {seg.inner[1]}; }}')
                elif seg.inner[0] == 'enum':
                    w(f'if o.f_{seg.name}.some {{ t += {self.m.decls[seg.inner[1]].width // 8}; }}')
                else:
                    w(f'if o.f_{seg.name}.some {{ t += ref_len_{seg.inner[1]}(&o.f_{seg.name}.v); }}')
            elif isinstance(seg, StructSeg):
                w(f't += ref_len_{seg.decl}(&o.f_{seg.name});')
            elif isinstance(seg, CustomSeg):
                w(f't += {seg.nbytes};')
            elif isinstance(seg, PayloadSeg):
                w('t += pl_len;')
            elif isinstance(seg, ArraySeg):
                if seg.padding is not None:
                    w(f't += {seg.padding};')
                else:
                    w(f't += alen_{n}_{seg.name}(o);')
        w('t')
        w.close()
        for seg in arrays:
            w.open(f'pub fn alen_{n}_{seg.name}(o: &O_{n}) -> usize {{')
            w('let mut t: usize = 0; let mut i: usize = 0;')
            w(f'while i < o.f_{seg.name}.len {{ t += {self._elem_len(seg, f"o.f_{seg.name}.items[i]")}; i += 1; }}')
            w('t')
            w.close()
        # ---- well-formedness (faults in wire order)
        w.open(f'pub fn wf_own_{n}(o: &O_{n}, pl_len: usize, ef: &mut EFaults) {{')
        for seg in plan:
            if isinstance(seg, Chunk):
                for it in seg.items:
                    if it.kind == 'scalar':
                        if backing(it.width) > it.width:
                            w(f'if o.f_{it.name} > {_wmask(it.width)} {{ ef.add(EFault::Scalar); }}')
                    elif it.kind == 'flag':
                        if len(it.opts) > 1:
                            conds = [f'(if o.f_{fid}.some {{ {cv}u64 }} else {{ {1 - cv}u64 }})' for fid, cv in it.opts]
                            w('if ' + ' || '.join(f'{conds[0]} != {c}' for c in conds[1:]) + ' { ef.add(EFault::Condition); }')
                    elif it.kind == 'size':
                        if it.target in ('_payload_', '_body_'):
                            pseg = [s for s in plan if isinstance(s, PayloadSeg)][0]
                            w(f'if (pl_len as u128) + {pseg.modifier} > {(1 << it.width) - 1}u128 {{ ef.add(EFault::Size); }}')
                        else:
                            w(f'if (alen_{n}_{it.target}(o) as u128) > {(1 << it.width) - 1}u128 {{ ef.add(EFault::Size); }}')
                    elif it.kind == 'count':
                        w(f'if (o.f_{it.target}.len as u128) > {(1 << it.width) - 1}u128 {{ ef.add(EFault::Count); }}')
                    elif it.kind == 'elemsize':
                        aseg = [s for s in arrays if s.name == it.target][0]
                        a = f'o.f_{it.target}'
                        w.open('{')
                        w(f'let es0: usize = if {a}.len > 0 {{ {self._elem_len(aseg, a + ".items[0]")} }} else {{ 0 }};')
                        w('let mut i: usize = 0; let mut bad = false;')
                        w(f'while i < {a}.len {{ if {self._elem_len(aseg, a + ".items[i]")} != es0 {{ bad = true; }} i += 1; }}')
                        w('if bad { ef.add(EFault::ElementSize); }')
                        w(f'else if (es0 as u128) > {(1 << it.width) - 1}u128 {{ ef.add(EFault::Size); }}')
                        w.close()
            elif isinstance(seg, OptSeg):
                f = [x for x in self.m.fields[n] if x.name == seg.name][0]
                if seg.inner[0] == 'scalar':
                    if backing(f.width) > f.width:
                        w(f'if o.f_{seg.name}.some && o.f_{seg.name}.v > {_wmask(f.width)} {{ ef.add(EFault::Scalar); }}')
                elif seg.inner[0] == 'struct':
                    w(f'if o.f_{seg.name}.some {{ ref_wf_{seg.inner[1]}(&o.f_{seg.name}.v, ef); }}')
            elif isinstance(seg, StructSeg):
                w(f'ref_wf_{seg.decl}(&o.f_{seg.name}, ef);')
            elif isinstance(seg, ArraySeg):
                a = f'o.f_{seg.name}'
                if seg.elem[0] == 'scalar' and backing(8 * seg.elem_static) > 8 * seg.elem_static:
                    # elements of a non-native width live in a wider integer: out-of-range elements are scalar faults
                    w(f'{{ let mut i: usize = 0; while i < {a}.len {{ if {a}.items[i] > {_wmask(8 * seg.elem_static)} {{ ef.add(EFault::Scalar); }} i += 1; }} }}')
                if seg.padding is not None:
                    w(f'if alen_{n}_{seg.name}(o) > {seg.padding} {{ ef.add(EFault::Size); }}')
                if seg.elem[0] == 'struct':
                    w(f'{{ let mut i: usize = 0; while i < {a}.len {{ ref_wf_{seg.elem[1]}(&{a}.items[i], ef); i += 1; }} }}')
        w.close()
        # ---- encode
        w.open(f'pub fn re_own_{n}(o: &O_{n}, pl: &[u8], out: &mut RBuf<{self.ocap}>) {{')
        for si, seg in enumerate(plan):
            if isinstance(seg, Chunk):
                terms = []
                for it in seg.items:
                    if it.kind in ('scalar', 'enum'):
                        v = f'o.f_{it.name}'
                    elif it.kind in ('fixed_scalar', 'fixed_enum'):
                        v = f'{it.value:#x}u64'
                    elif it.kind == 'reserved':
                        continue
                    elif it.kind == 'flag':
                        fid, cv = it.opts[0]
                        v = f'(if o.f_{fid}.some {{ {cv}u64 }} else {{ {1 - cv}u64 }})'
                    elif it.kind == 'size':
                        if it.target in ('_payload_', '_body_'):
                            pseg = [s for s in plan if isinstance(s, PayloadSeg)][0]
                            v = f'((pl.len() + {pseg.modifier}) as u64)'
                        else:
                            v = f'(alen_{n}_{it.target}(o) as u64)'
                    elif it.kind == 'count':
                        v = f'(o.f_{it.target}.len as u64)'
                    elif it.kind == 'elemsize':
                        aseg = [s for s in arrays if s.name == it.target][0]
                        a = f'o.f_{it.target}'
                        v = f'((if {a}.len > 0 {{ {self._elem_len(aseg, a + ".items[0]")} }} else {{ 0 }}) as u64)'
                    else:
                        raise Unsupported(it.kind)
                    v = f'({v} & {_wmask(it.width)})'
                    terms.append(f'({v} << {it.shift})' if it.shift else v)
                w(self.put_uint(" | ".join(terms) if terms else "0u64", seg.nbytes))
            elif isinstance(seg, OptSeg):
                w.open(f'if o.f_{seg.name}.some {{')
                if seg.inner[0] == 'scalar':
                    w(self.put_uint(f'o.f_{seg.name}.v', seg.inner[1]))
                elif seg.inner[0] == 'enum':
                    w(self.put_uint(f'o.f_{seg.name}.v', self.m.decls[seg.inner[1]].width // 8))
                else:
                    w(f'ref_encode_{seg.inner[1]}(&o.f_{seg.name}.v, out);')
                w.close()
            elif isinstance(seg, StructSeg):
                w(f'ref_encode_{seg.decl}(&o.f_{seg.name}, out);')
            elif isinstance(seg, CustomSeg):
                w(self.put_uint(f'o.f_{seg.name}', seg.nbytes))
            elif isinstance(seg, PayloadSeg):
                w('out.extend(pl);')
            elif isinstance(seg, ArraySeg):
                a = f'o.f_{seg.name}'
                w.open('{')
                w('let start: usize = out.len;')
                w('let mut i: usize = 0;')
                w.open(f'while i < {a}.len {{')
                if seg.elem[0] == 'struct':
                    w(f'ref_encode_{seg.elem[1]}(&{a}.items[i], out);')
                else:
                    w(self.put_uint(f'{a}.items[i]', seg.elem_static))
                w('i += 1;')
                w.close()
                if seg.padding is not None:
                    w(f'if out.len - start < {seg.padding} {{ out.zeros({seg.padding} - (out.len - start)); }}')
                w.close()
        w.close()

    def emit_type_encode(self, w: W, name):
        ch = self.m.chain(name)
        k = len(ch) - 1
        leaf_pl = f'&r.l{k}.payload.items[..r.l{k}.payload.len]' if self.m.has_payload(name) else '&[]'
        # length
        w.open(f'pub fn ref_len_{name}(r: &R_{name}) -> usize {{')
        w(f'let mut n: usize = len_own_{ch[k]}(&r.l{k}, {f"r.l{k}.payload.len" if self.m.has_payload(name) else "0"});')
        for i in range(k - 1, -1, -1):
            w(f'n = len_own_{ch[i]}(&r.l{i}, n);')
        w('n')
        w.close()
        # well-formedness: faults of the innermost level belong to the payload position of its parent,
        # scalar faults of outer levels before the payload come first in wire order; a single fault is
        # what the harness constrains, so the order only matters for `first`
        w.open(f'pub fn ref_wf_{name}(r: &R_{name}, ef: &mut EFaults) {{')
        w(f'let mut n: usize = len_own_{ch[k]}(&r.l{k}, {f"r.l{k}.payload.len" if self.m.has_payload(name) else "0"});')
        lens = []
        for i in range(k, -1, -1):
            pl = (f'r.l{k}.payload.len' if self.m.has_payload(name) else '0') if i == k else f'n{i + 1}'
            w(f'let n{i}: usize = len_own_{ch[i]}(&r.l{i}, {pl});')
        for i in range(k + 1):
            pl = (f'r.l{k}.payload.len' if self.m.has_payload(name) else '0') if i == k else f'n{i + 1}'
            w(f'wf_own_{ch[i]}(&r.l{i}, {pl}, ef);')
        w.close()
        # encode
        w.open(f'pub fn ref_encode_{name}(r: &R_{name}, out: &mut RBuf<{self.ocap}>) {{')
        if k == 0:
            w(f're_own_{ch[0]}(&r.l0, {leaf_pl}, out);')
        else:
            w(f'let mut b{k} = RBuf::<{self.ocap}>::new();')
            w(f're_own_{ch[k]}(&r.l{k}, {leaf_pl}, &mut b{k});')
            for i in range(k - 1, 0, -1):
                w(f'let mut b{i} = RBuf::<{self.ocap}>::new();')
                w(f're_own_{ch[i]}(&r.l{i}, &b{i + 1}.buf[..b{i + 1}.len], &mut b{i});')
                w(f'if b{i + 1}.overflow {{ b{i}.overflow = true; }}')
            w(f're_own_{ch[0]}(&r.l0, &b1.buf[..b1.len], out);')
            w('if b1.overflow { out.overflow = true; }')
        w.close()

    def emit_encode_side(self) -> str:
        w = W()
        self.emit_cmp(w)
        sup = [n for n in self.types if self.supported(n)]
        for n in sup:
            self.emit_own(w, n)
        for n in sup:
            self.emit_type_encode(w, n)
            self.emit_draw(w, n)
            self.emit_build(w, n)
        return w.text()

    # ---- python mirror of draw_<T>: rebuild the reference value from the words of a counterexample
    def value_from_words(self, name, words: List[int], k: int, p: int):
        it = iter(list(words) + [0] * 4096)
        ok = [True]

        def draw_field(f):
            if f.kind == 'scalar' or (f.kind == 'array' and f.width is not None):
                return next(it) & ((1 << backing(f.width)) - 1)
            d = self.m.decls[f.type_id]
            if d.kind in ('enum', 'custom_field'):
                return next(it) & ((1 << backing(d.width)) - 1)
            return draw(f.type_id)

        def draw(tname):
            vals = {}
            ch = self.m.chain(tname)
            cs = self.m.all_constraints(tname)
            for lv, n in enumerate(ch):
                flags = self.m.flags(n)
                fv = {fl: next(it) & 1 for fl in flags}
                for f in self.own_named(n):
                    if f.name in cs:
                        continue
                    if f.cond is not None:
                        pres = fv[f.cond[0]]
                        if flags[f.cond[0]][0][0] != f.name:
                            pres ^= next(it) & 1
                        vals[f.name] = draw_field(f) if pres == f.cond[1] else None
                    elif f.kind == 'array':
                        if f.count is not None:
                            cnt, loop = f.count, f.count
                        else:
                            cnt, loop = next(it) & 0xff, self.kdraw
                            if cnt > k:
                                ok[0] = False
                        xs = []
                        for i in range(loop):
                            x = draw_field(f)
                            if i < cnt:
                                xs.append(x)
                        vals[f.name] = xs
                    else:
                        vals[f.name] = draw_field(f)
                if n == ch[-1] and self.m.has_payload(n):
                    npl = next(it) & 0xff
                    if npl > p:
                        ok[0] = False
                    bs = []
                    for i in range(self.pdraw):
                        x = next(it) & 0xff
                        if i < npl:
                            bs.append(x)
                    vals['payload'] = bs
            return vals
        v = draw(name)
        return v, ok[0]


for _k, _v in list(_Enc.__dict__.items()):
    if not _k.startswith('__'):
        setattr(RustRef, _k, _v)
