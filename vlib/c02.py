"""C02 — Rust encode then decode is the identity on every well-formed value."""
from __future__ import annotations

from . import c03

PROP = 'C02'
QUOTAS = {
    'quick': {'cheap': 1, 'medium': 2, 'heavy': 0, 'F1:cheap': 6, 'F2:medium': 6, 'F4:medium': 4, 'R:cheap': 2, 'R:medium': 4},
    'thorough': {'cheap': 150, 'medium': 90, 'heavy': 16, 'F1:cheap': 400, 'F2:medium': 140, 'F4:medium': 60,
                 'R:cheap': 60, 'R:medium': 70, 'R:heavy': 16},
}


def main(tier, seed):
    want = lambda mdl, u, t, d: ['c02'] if d.roundtrip else []   # noqa: E731
    return c03.run(PROP, 'c02', tier, seed, QUOTAS[tier], ('C02:',), ('encode', 'roundtrip'), want=want,
                   level='model_checking',
                   extra_cov={'functions_encoded': ['<T>::encode', '<T>::decode_full', '<Root>::decode_full + specialize() chain',
                                                    'rf::eq_<T>'],
                              'validity_predicate': 'scalars < 2^width, arrays/payloads fit their size/count fields and paddings, '
                                                    'optional fields consistent with their flag (rf::ref_wf_<T> reports no fault)'})
