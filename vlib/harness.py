"""Generate the #[kani::proof] harnesses of a description unit (E-KANI).

A module of the harness crate =  text printed by the pdlc under test
                               + `pub mod rf` (reference, vlib.rustref)
                               + `#[cfg(kani)] mod h` (harnesses, below)
Assertion messages start with the property id they decide, so one harness run
can be attributed: Kani's own checks (panic, overflow, bounds, unwinding) belong
to the no-panic clauses (C01 decode side, C05 encode side).
"""
from __future__ import annotations

import re
from typing import Dict, List, Optional, Tuple

from . import model as M
from .ref import Model
from .rustref import RustRef, W, backing, camel


def modname(desc_id: str) -> str:
    return 'm_' + re.sub(r'[^A-Za-z0-9_]', '_', desc_id)


class HarnessGen:
    def __init__(self, mdl: Model, L: int, K: int = 2):
        self.m = mdl
        self.L = L
        self.K = K
        self.both_calls = True
        self.rr = RustRef(mdl, acap=max(L, 2), pcap=max(L, 2), ocap=4 * L + 16)

    @staticmethod
    def unwind(L: int) -> int:
        """loops over the input run at most L times (+1 for the exit test, +1 slack); copies of a
        fixed number of octets are memcpy built-ins, and bytes' chunk loop runs once for &[u8].
        Kani's unwinding assertions are on: a loop that needs more iterations fails the harness
        instead of being truncated."""
        return max(L + 2, 3)

    # ------------------------------------------------------------------ C01
    def h_c01(self, w: W, t: str, L: int):
        """totality + memory safety of decode_mut / decode_full / specialize / Child::try_from"""
        w(f'#[kani::proof]\n#[kani::unwind({self.unwind(L)})]')
        w.open(f'fn c01_{t}() {{')
        w(f'let data: [u8; {L}] = kani::any();')
        w('let n: usize = kani::any();')
        w(f'kani::assume(n <= {L});')
        w('let mut s: &[u8] = &data[..n];')
        w.open(f'match {t}::decode_mut(&mut s) {{')
        w.open('Ok(v) => {')
        w('assert!(s.len() <= n, "C01: remainder longer than the input");')
        w('assert!(s.as_ptr() == data[n - s.len()..n].as_ptr(), "C01: remainder is not a suffix of the input");')
        w('kani::cover!(true, "accepting path");')
        self._conversions(w, t, 'v')
        w('std::mem::forget(v);')
        w.close()
        w.open('Err(e) => {')
        w('assert!(s.len() == n && s.as_ptr() == data[..n].as_ptr(), "C01: decode_mut moved the slice on failure");')
        w('std::mem::forget(e);')
        w.close()
        w.close()
        if self.both_calls:
            w(f'let r = {t}::decode_full(&data[..n]);')
            w('std::mem::forget(r);')
        w.close()

    def _conversions(self, w: W, t: str, v: str):
        kids = self.m.children(t)
        if not kids:
            return
        w(f'let sp = {v}.specialize();')
        w('std::mem::forget(sp);')
        for c in self.m.children(t):
            w(f'let cv = {c}::try_from(&{v});')
            w('std::mem::forget(cv);')

    # ------------------------------------------------------------------ C04
    def h_c04(self, w: W, t: str, L: int):
        """decode accepts exactly the reference language, yields the reference values,
        single faults get the right DecodeError variant"""
        w(f'#[kani::proof]\n#[kani::unwind({self.unwind(L)})]')
        w.open(f'fn c04_{t}() {{')
        w(f'let data: [u8; {L}] = kani::any();')
        w('let n: usize = kani::any();')
        w(f'kani::assume(n <= {L});')
        w('let b: &[u8] = &data[..n];')
        w(f'let rr = ref_decode_{t}(b);')
        w('kani::assume(!rr.cap);')
        w.open(f'match {t}::decode(b) {{')
        w.open('Ok((v, rest)) => {')
        w('assert!(rr.ok, "C04: decoder accepts an input the reference rejects");')
        w('assert!(rest.len() <= n && n - rest.len() == rr.used, "C04: consumed length differs from the reference");')
        w(f'assert!(eq_{t}(&v, &rr.v), "C04: field values differ from the reference");')
        w('kani::cover!(true, "accepting path");')
        w('std::mem::forget(v);')
        w.close()
        w.open('Err(e) => {')
        w('assert!(!rr.ok, "C04: decoder rejects an input the reference accepts");')
        w('assert!(rr.count != 1 || fault_of(&e) == rr.first, "C04: single fault reported with the wrong DecodeError variant");')
        w('std::mem::forget(e);')
        w.close()
        w.close()
        w.close()

    # ------------------------------------------------------------------ module
    def module(self, generated: str, harnesses: List[Tuple[str, str]], need_ref=True) -> str:
        """harnesses: [(kind, type)]"""
        w = W()
        w(generated)
        if need_ref:
            w.open('pub mod rf {')
            w('use super::*;')
            w('use crate::support::*;')
            w(self.rr.emit_decode_side())
            w.close()
        w('#[cfg(kani)]')
        w.open('mod h {')
        w('use super::*;')
        if need_ref:
            w('use super::rf::*;')
        w('use crate::support::*;')
        for kind, t, L in harnesses:
            getattr(self, 'h_' + kind)(w, t, L)
        w.close()
        return w.text()
