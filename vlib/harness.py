"""Generate the #[kani::proof] harnesses of a description unit (E-KANI).

A module of the harness crate =  text printed by the pdlc under test
                               + `pub mod rf` (reference, vlib.rustref)
                               + `#[cfg(kani)] mod h` (harnesses, below)
Assertion messages start with the property id they decide, so one harness run
can be attributed: Kani's own checks (panic, overflow, bounds, unwinding) belong
to the no-panic clauses (C01 decode side, C05 encode side).
"""
from __future__ import annotations

import re
from typing import Dict, List, Optional, Tuple

from . import model as M
from .ref import Model
from .rustref import RustRef, W, backing, camel


def modname(desc_id: str) -> str:
    return 'm_' + re.sub(r'[^A-Za-z0-9_]', '_', desc_id)


class HarnessGen:
    def __init__(self, mdl: Model, L: int, K: int = 2):
        self.m = mdl
        self.L = L
        self.K = K
        self.both_calls = True
        self.force_encode_side = False
        msc = max([f.count for fs in mdl.fields.values() for f in fs if f.kind == 'array' and f.count is not None] + [0])
        self.rr = RustRef(mdl, acap=max(L, 2, msc), pcap=max(L, 2), ocap=4 * L + 16)
        self.rr.kdraw = self.rr.pdraw = K
        self.rr.mcmp = min(self.rr.ocap, 24)

    @staticmethod
    def unwind(L: int) -> int:
        """loops over the input run at most L times (+1 for the exit test, +1 slack); copies of a
        fixed number of octets are memcpy built-ins, and bytes' chunk loop runs once for &[u8].
        Kani's unwinding assertions are on: a loop that needs more iterations fails the harness
        instead of being truncated."""
        return max(L + 2, 3)

    # ------------------------------------------------------------------ C01
    def h_c01(self, w: W, t: str, L: int):
        """totality + memory safety of decode_mut / decode_full / specialize / Child::try_from"""
        w(f'#[kani::proof]\n#[kani::unwind({self.unwind(L)})]')
        w.open(f'fn c01_{t}() {{')
        w(f'let data: [u8; {L}] = kani::any();')
        w('let n: usize = kani::any();')
        w(f'kani::assume(n <= {L});')
        w('let mut s: &[u8] = &data[..n];')
        w.open(f'match {t}::decode_mut(&mut s) {{')
        w.open('Ok(v) => {')
        w('assert!(s.len() <= n, "C01: remainder longer than the input");')
        w('assert!(s.as_ptr() == data[n - s.len()..n].as_ptr(), "C01: remainder is not a suffix of the input");')
        w('kani::cover!(true, "accepting path");')
        self._conversions(w, t, 'v')
        w('std::mem::forget(v);')
        w.close()
        w.open('Err(e) => {')
        w('assert!(s.len() == n && (n == 0 || s.as_ptr() == data[..n].as_ptr()), "C01: decode_mut moved the slice on failure");')
        w('std::mem::forget(e);')
        w.close()
        w.close()
        if self.both_calls:
            w(f'let r = {t}::decode_full(&data[..n]);')
            w('std::mem::forget(r);')
        w.close()

    def _conversions(self, w: W, t: str, v: str):
        kids = self.m.children(t)
        if not kids:
            return
        w(f'let sp = {v}.specialize();')
        w('std::mem::forget(sp);')
        for c in self.m.children(t):
            w(f'let cv = {c}::try_from(&{v});')
            w('std::mem::forget(cv);')

    # ------------------------------------------------------------------ C04
    def h_c04(self, w: W, t: str, L: int):
        """decode accepts exactly the reference language, yields the reference values,
        single faults get the right DecodeError variant"""
        w(f'#[kani::proof]\n#[kani::unwind({self.unwind(L)})]')
        w.open(f'fn c04_{t}() {{')
        w(f'let data: [u8; {L}] = kani::any();')
        w('let n: usize = kani::any();')
        w(f'kani::assume(n <= {L});')
        w('let b: &[u8] = &data[..n];')
        w(f'let rr = ref_decode_{t}(b);')
        w('kani::assume(!rr.cap);')
        w.open(f'match {t}::decode(b) {{')
        w.open('Ok((v, rest)) => {')
        w('assert!(rr.ok, "C04: decoder accepts an input the reference rejects");')
        w('assert!(rest.len() <= n && n - rest.len() == rr.used, "C04: consumed length differs from the reference");')
        w(f'assert!(eq_{t}(&v, &rr.v), "C04: field values differ from the reference");')
        w('kani::cover!(true, "accepting path");')
        w('std::mem::forget(v);')
        w.close()
        w.open('Err(e) => {')
        w('assert!(!rr.ok, "C04: decoder rejects an input the reference accepts");')
        w('assert!(rr.count != 1 || fault_of(&e) == rr.first, "C04: single fault reported with the wrong DecodeError variant");')
        w('std::mem::forget(e);')
        w.close()
        w.close()
        w.close()

    def h_c04r(self, w: W, t: str, L: int):
        """re-encode clause: for every accepted input, encode(decode_full(b)) is the canonical reference
        encoding ref_encode(ref_decode(b)) (b with reserved bits and padding cleared)"""
        w(f'#[kani::proof]\n#[kani::unwind({max(self.unwind(L), self.unwind_v())})]')
        w.open(f'fn c04r_{t}() {{')
        w(f'let data: [u8; {L}] = kani::any();')
        w('let n: usize = kani::any();')
        w(f'kani::assume(n <= {L});')
        w('let b: &[u8] = &data[..n];')
        w(f'let rr = ref_decode_{t}(b);')
        w('kani::assume(!rr.cap && rr.ok && rr.used == n);')
        w(f'let v = match {t}::decode_full(b) {{ Ok(v) => v, Err(e) => {{ std::mem::forget(e); return; }} }};')
        w(f'let mut ro = RBuf::<{self.rr.ocap}>::new();')
        w(f'ref_encode_{t}(&rr.v, &mut ro);')
        w(f'kani::assume(!ro.overflow && ro.len <= {self.rr.mcmp});')
        w(f'let mut out = ArrBuf::<{self.rr.ocap}>::new();')
        w('let r = v.encode(&mut out);')
        w('assert!(r.is_ok(), "C04: encode fails on a decoded value");')
        w('assert!(bytes_eq_m(&out.buf, out.len, &ro.buf, ro.len), "C04: re-encoding of a decoded value differs from the canonical reference encoding");')
        w('kani::cover!(true, "accepting path");')
        w('std::mem::forget(v); std::mem::forget(r);')
        w.close()

    # ------------------------------------------------------------------ value-driven harnesses
    def _draw(self, w: W, t: str):
        w('let mut drawn = true;')
        w(f'let rv = draw_{t}(&mut KaniSrc, {self.K}, {self.K}, &mut drawn);')
        w('kani::assume(drawn);')
        w('let mut ef = EFaults::new();')
        w(f'ref_wf_{t}(&rv, &mut ef);')

    def _encode_ref(self, w: W, t: str):
        w(f'let mut ro = RBuf::<{self.rr.ocap}>::new();')
        w(f'ref_encode_{t}(&rv, &mut ro);')
        w(f'kani::assume(!ro.overflow && ro.len <= {self.rr.mcmp});')

    def h_c03(self, w: W, t: str, L: int):
        """bytes written by encode == reference encoding, for every well-formed value"""
        w(f'#[kani::proof]\n#[kani::unwind({self.unwind_v()})]')
        w.open(f'fn c03_{t}() {{')
        self._draw(w, t)
        w('kani::assume(ef.count == 0);')
        w(f'let v = match build_{t}(&rv) {{ Some(v) => v, None => return }};')
        self._encode_ref(w, t)
        w(f'let mut out = ArrBuf::<{self.rr.ocap}>::new();')
        w('let r = v.encode(&mut out);')
        w('assert!(r.is_ok(), "C03: encode fails on a well-formed value");')
        w('assert!(bytes_eq_m(&out.buf, out.len, &ro.buf, ro.len), "C03: encoded bytes differ from the reference wire format");')
        w('assert!(out.len == v.encoded_len(), "C05: bytes written differ from encoded_len()");')
        w('kani::cover!(true, "accepting path");')
        w('std::mem::forget(v); std::mem::forget(r);')
        w.close()

    def h_c05(self, w: W, t: str, L: int):
        """ALL values: Err iff not well-formed (right variant for a single cause), never truncates"""
        w(f'#[kani::proof]\n#[kani::unwind({self.unwind_v()})]')
        w.open(f'fn c05_{t}() {{')
        self._draw(w, t)
        w(f'let v = match build_{t}(&rv) {{ Some(v) => v, None => return }};')
        w(f'let mut out = ArrBuf::<{self.rr.ocap}>::new();')
        w('let r = v.encode(&mut out);')
        w.open('match &r {')
        w.open('Ok(()) => {')
        w('assert!(ef.count == 0, "C05: encode succeeds on a value that cannot be represented (truncation)");')
        self._encode_ref(w, t)
        w('assert!(bytes_eq_m(&out.buf, out.len, &ro.buf, ro.len), "C05: encoded bytes differ from the reference (wrapped or truncated bits)");')
        w('assert!(out.len == v.encoded_len(), "C05: bytes written differ from encoded_len()");')
        w('kani::cover!(true, "accepting path");')
        w.close()
        w.open('Err(e) => {')
        w('assert!(ef.count != 0, "C05: encode fails on a well-formed value");')
        w('assert!(ef.count != 1 || efault_of(e) == ef.first, "C05: single cause reported with the wrong EncodeError variant");')
        w.close()
        w.close()
        w('std::mem::forget(v); std::mem::forget(r);')
        w.close()

    def h_c02(self, w: W, t: str, L: int):
        """decode_full(encode(v)) == v, also through every ancestor + specialize"""
        w(f'#[kani::proof]\n#[kani::unwind({self.unwind_v()})]')
        w.open(f'fn c02_{t}() {{')
        self._draw(w, t)
        w('kani::assume(ef.count == 0);')
        w(f'let v = match build_{t}(&rv) {{ Some(v) => v, None => return }};')
        w(f'let mut out = ArrBuf::<{self.rr.ocap}>::new();')
        w('let r = v.encode(&mut out);')
        w('assert!(r.is_ok(), "C02: encode fails on a well-formed value");')
        w.open(f'match {t}::decode_full(out.bytes()) {{')
        w(f'Ok(back) => {{ assert!(eq_{t}(&back, &rv), "C02: decode_full(encode(v)) differs from v"); kani::cover!(true, "accepting path"); std::mem::forget(back); }}')
        w('Err(e) => { assert!(false, "C02: decode_full(encode(v)) fails"); std::mem::forget(e); }')
        w.close()
        ch = self.m.chain(t)
        if len(ch) > 1:
            # the same bytes decoded as the root and specialized down level by level
            w.open(f'match {ch[0]}::decode_full(out.bytes()) {{')
            w.open('Ok(p0) => {')
            for i in range(1, len(ch)):
                w(f'let p{i} = match p{i - 1}.specialize() {{ Ok({ch[i - 1]}Child::{ch[i]}(c)) => c, '
                  f'_ => {{ assert!(false, "C02: ancestor does not specialize back to the encoded type"); return; }} }};')
            w(f'assert!(eq_{t}(&p{len(ch) - 1}, &rv), "C02: value specialized from the root differs from v");')
            w.close()
            w('Err(e) => { assert!(false, "C02: the root does not decode the child encoding"); std::mem::forget(e); }')
            w.close()
        w('std::mem::forget(v); std::mem::forget(r);')
        w.close()

    # ------------------------------------------------------------------ C06 inheritance coherence
    def h_c06s(self, w: W, P: str, L: int):
        """specialize() only (the cheaper half of c06d)"""
        self.h_c06d(w, P, L, name='c06s', with_try=False)

    def h_c06t(self, w: W, P: str, L: int):
        """Child::try_from(&parent) only"""
        self.h_c06d(w, P, L, name='c06t', with_spec=False)

    def h_c06d(self, w: W, P: str, L: int, name='c06d', with_spec=True, with_try=True):
        """specialize() and Child::try_from(&parent) against the constraint oracle, parents decoded from all bytes"""
        kids = self.m.children(P)
        w(f'#[kani::proof]\n#[kani::unwind({self.unwind(L)})]')
        w.open(f'fn {name}_{P}() {{')
        w(f'let data: [u8; {L}] = kani::any();')
        w('let n: usize = kani::any();')
        w(f'kani::assume(n <= {L});')
        w('let b: &[u8] = &data[..n];')
        w(f'let p = match {P}::decode_full(b) {{ Ok(p) => p, Err(e) => {{ std::mem::forget(e); return; }} }};')
        w(f'let rr = ref_decode_{P}(b);')
        w('kani::assume(!rr.cap && rr.ok && rr.used == n);')
        w(f'let (which, parse_ok) = ref_spec_{P}(&rr.v);')
        w('kani::assume(which != -2);')
        w('kani::cover!(which >= 0 && parse_ok, "accepting path");')
        if with_spec:
            w.open('match p.specialize() {')
            for k, X in enumerate(kids):
                w(f'Ok({P}Child::{X}(c)) => {{ assert!(which == {k} && parse_ok, "C06: specialize returns a child whose constraints or payload do not match"); '
                  f'assert!(eq_{X}(&c, &ref_try_{P}_{X}(&rr.v).2), "C06: specialized child has different field values"); std::mem::forget(c); }}')
            w(f'Ok({P}Child::None) => {{ assert!(which == -1, "C06: specialize returns None although a child matches"); }}')
            w('Err(e) => { assert!(which >= 0 && !parse_ok, "C06: specialize fails although no child matches or the payload parses"); std::mem::forget(e); }')
            w.close()
        for k, X in enumerate(kids if with_try else []):
            w(f'let t{k} = ref_try_{P}_{X}(&rr.v);')
            w.open(f'match {X}::try_from(&p) {{')
            w(f'Ok(c) => {{ assert!(t{k}.0 && t{k}.1, "C06: Child::try_from succeeds although a constraint is violated or the payload does not parse"); '
              f'assert!(eq_{X}(&c, &t{k}.2), "C06: converted child has different field values"); std::mem::forget(c); }}')
            w(f'Err(e) => {{ assert!(!(t{k}.0 && t{k}.1), "C06: Child::try_from fails although constraints hold and the payload parses"); '
              f'assert!(t{k}.0 || matches!(e, DecodeError::ConstraintValueError {{ .. }}), "C06: violated constraint not reported as ConstraintValueError"); '
              f'assert!(!t{k}.0 || !matches!(e, DecodeError::ConstraintValueError {{ .. }}), "C06: ConstraintValueError although no constraint is violated"); std::mem::forget(e); }}')
            w.close()
        w('std::mem::forget(p);')
        w.close()

    def h_c06v(self, w: W, X: str, L: int):
        """for every child value c: Parent::try_from(&c) carries the constraint values, encodes to the bytes of c, converts back"""
        P = self.m.decls[X].parent
        cs = self.m.all_constraints(X)
        pdata = {f.name: (dn, f) for dn, f in self.m.data_fields(P)}
        w(f'#[kani::proof]\n#[kani::unwind({self.unwind_v()})]')
        w.open(f'fn c06v_{X}() {{')
        self._draw(w, X)
        w('kani::assume(ef.count == 0);')
        w(f'let c = match build_{X}(&rv) {{ Some(v) => v, None => return }};')
        w(f'let p = match {P}::try_from(&c) {{ Ok(p) => p, Err(_) => {{ assert!(false, "C06: Parent::try_from fails on a well-formed child"); return; }} }};')
        for k, v in cs.items():
            if k in pdata:
                f = pdata[k][1]
                val = self.m.constraint_value(X, k, v)
                w(f'assert!({self.rr._eq_scalarlike(f, "p." + k, f"{val:#x}u64")}, "C06: parent built from a child does not carry the constraint value");')
        oc = self.rr.ocap
        w(f'let mut a = ArrBuf::<{oc}>::new(); let mut b = ArrBuf::<{oc}>::new();')
        w('let ra = p.encode(&mut a); let rb = c.encode(&mut b);')
        w('assert!(ra.is_ok() && rb.is_ok(), "C06: encode fails on parent or child");')
        w(f'kani::assume(b.len <= {self.rr.mcmp});')
        w('assert!(bytes_eq_m(&a.buf, a.len, &b.buf, b.len), "C06: parent built from a child encodes to different bytes");')
        w(f'match {X}::try_from(&p) {{ Ok(back) => {{ assert!(eq_{X}(&back, &rv), "C06: converting back yields a different child"); kani::cover!(true, "accepting path"); std::mem::forget(back); }} '
          f'Err(e) => {{ assert!(false, "C06: converting the parent back to the child fails"); std::mem::forget(e); }} }}')
        w('std::mem::forget(p); std::mem::forget(c); std::mem::forget(ra); std::mem::forget(rb);')
        w.close()

    # ------------------------------------------------------------------ C16 static sizes
    static_octets = {}

    def h_c16(self, w: W, t: str, L: int):
        """Schema says total_size == Static(8*N): every encoding has N octets, only N-octet inputs decode"""
        N = self.static_octets[t]
        w(f'#[kani::proof]\n#[kani::unwind({max(self.unwind_v(), 4)})]')
        w.open(f'fn c16_{t}() {{')
        self._draw(w, t)
        w('kani::assume(ef.count == 0);')
        w(f'let v = match build_{t}(&rv) {{ Some(v) => v, None => return }};')
        w(f'let mut out = ArrBuf::<{max(self.rr.ocap, N + 8)}>::new();')
        w('let r = v.encode(&mut out);')
        w(f'if r.is_ok() {{ assert!(out.len == {N}, "C16: an encoding does not occupy the statically announced size"); kani::cover!(true, "accepting path"); }}')
        w(f'assert!(ref_len_{t}(&rv) == {N}, "C16: the reference encoding does not occupy the statically announced size");')
        w('std::mem::forget(v); std::mem::forget(r);')
        if self.m.cost_class(t) == 'cheap':
            w(f'let data: [u8; {N + 2}] = kani::any();')
            w('let n: usize = kani::any();')
            w(f'kani::assume(n <= {N + 2});')
            w(f'let dr = {t}::decode_full(&data[..n]);')
            w(f'if dr.is_ok() {{ assert!(n == {N}, "C16: decode_full accepts an input whose length is not the static size"); }}')
            w('std::mem::forget(dr);')
        w.close()

    # ------------------------------------------------------------------ C15 enum conversions
    def h_c15(self, w: W, e: str, L: int):
        """TryFrom<uN> / From<E> exact over the whole backing integer (no bound)"""
        d = self.m.decls[e]
        width = d.width
        bt = backing(width)
        is_open = self.m.enum_is_open(e)
        w('#[kani::proof]')
        w.open(f'fn c15_{e}() {{')
        w(f'let x: u{bt} = kani::any();')
        w('let xv: u64 = x as u64;')
        inw = 'true' if width == 64 else f'xv < {1 << width:#x}u64'
        w(f'let in_width: bool = {inw};')
        w(f'let member: bool = {self.rr.member_expr(e, "xv")};')
        w(f'let expect_ok: bool = in_width && (member || {"true" if is_open else "false"});')
        w.open(f'match {e}::try_from(x) {{')
        w.open('Ok(v) => {')
        w('assert!(expect_ok, "C15: conversion accepts an integer outside the declared value set");')
        w(f'assert!(u{bt}::from(v) == x, "C15: converting back does not yield the integer");')
        w(f'assert!(u{bt}::from(&v) == x, "C15: converting a reference back does not yield the integer");')
        tags_seen = []
        for t in d.tags:
            if isinstance(t, M.TagValue):
                w(f'if xv == {t.value:#x}u64 {{ assert!(matches!(v, {e}::{camel(t.name)}), "C15: named tag not returned"); }}')
                tags_seen.append(t.value)
            elif isinstance(t, M.TagRange):
                inner = []
                for x_ in t.tags:
                    w(f'if xv == {x_.value:#x}u64 {{ assert!(matches!(v, {e}::{camel(x_.name)}), "C15: named tag inside a range not returned"); }}')
                    inner.append(f'xv != {x_.value:#x}u64')
                cond = f'xv >= {t.lo:#x}u64 && xv <= {t.hi:#x}u64' + (' && ' + ' && '.join(inner) if inner else '')
                w(f'if {cond} {{ assert!(matches!(v, {e}::{camel(t.name)}(_)), "C15: range variant not returned"); }}')
        other = [t for t in d.tags if isinstance(t, M.TagOther)]
        covered = set()
        ivs = sorted([(t.value, t.value) for t in d.tags if isinstance(t, M.TagValue)] +
                     [(t.lo, t.hi) for t in d.tags if isinstance(t, M.TagRange)])
        nxt = 0
        for lo, hi in ivs:
            if lo > nxt:
                break
            nxt = max(nxt, hi + 1)
        complete = nxt >= (1 << width)
        if other and not complete:
            w(f'if !member {{ assert!(matches!(v, {e}::{camel(other[0].name)}(_)), "C15: default variant not returned"); }}')
        for wd in (8, 16, 32, 64):
            if wd > width:
                w(f'assert!(i{wd}::from(v) as i128 == xv as i128, "C15: widening conversion to i{wd} changes the value");')
            if wd >= width and wd != bt:
                w(f'assert!(u{wd}::from(v) as u64 == xv, "C15: widening conversion to u{wd} changes the value");')
        w('kani::cover!(true, "accepting path");')
        w.close()
        w.open('Err(r) => {')
        w('assert!(!expect_ok, "C15: conversion rejects a declared value");')
        w('assert!(r == x, "C15: the rejected integer is not returned unchanged");')
        w.close()
        w.close()
        w.close()

    # ------------------------------------------------------------------ C18 Packet trait laws
    def h_c18d(self, w: W, t: str, L: int):
        """decode / decode_full / decode_mut laws, and encode laws on the decoded value"""
        w(f'#[kani::proof]\n#[kani::unwind({self.unwind(L) + 1})]')
        w.open(f'fn c18d_{t}() {{')
        w(f'let data: [u8; {L}] = kani::any();')
        w('let n: usize = kani::any();')
        w(f'kani::assume(n <= {L});')
        w('let b: &[u8] = &data[..n];')
        w(f'let d = {t}::decode(b);')
        w(f'let f = {t}::decode_full(b);')
        w('let mut s: &[u8] = b;')
        w(f'let m = {t}::decode_mut(&mut s);')
        w.open('match &d {')
        w.open('Ok((v, rest)) => {')
        w('if rest.is_empty() { assert!(f.as_ref().ok() == Some(v), "C18: decode_full differs from decode on an empty remainder"); }')
        w('else { assert!(matches!(f, Err(DecodeError::TrailingBytesError)), "C18: decode_full does not report TrailingBytesError"); }')
        w('assert!(m.as_ref().ok() == Some(v), "C18: decode_mut value differs from decode");')
        w('assert!(s.len() == rest.len() && s.as_ptr() == rest.as_ptr(), "C18: decode_mut does not advance to decode\'s remainder");')
        w('kani::cover!(true, "accepting path");')
        w.close()
        w.open('Err(e) => {')
        w('assert!(match &f { Err(x) => derr_eq(x, e), _ => false }, "C18: decode_full error differs from decode");')
        w('assert!(match &m { Err(x) => derr_eq(x, e), _ => false }, "C18: decode_mut error differs from decode");')
        w('assert!(s.len() == n && (n == 0 || s.as_ptr() == b.as_ptr()), "C18: decode_mut moved the slice on failure");')
        w.close()
        w.close()
        w('std::mem::forget(d); std::mem::forget(f); std::mem::forget(m);')
        w.close()

    def _encode_laws(self, w: W, v: str):
        oc = self.rr.ocap
        w(f'let mut a = ArrBuf::<{oc}>::new();')
        w(f'let ra = {v}.encode(&mut a);')
        w(f'let rv = {v}.encode_to_vec();')
        w(f'let rb = {v}.encode_to_bytes();')
        w('let mut pre: Vec<u8> = Vec::new(); pre.push(0xAA); pre.push(0x55);')
        w(f'let rp = {v}.encode(&mut pre);')
        w.open('match &ra {')
        w.open('Ok(()) => {')
        w('assert!(rv.is_ok() && rb.is_ok() && rp.is_ok(), "C18: encode_to_vec / encode_to_bytes / append fail where encode succeeds");')
        w(f'kani::assume(a.len <= {self.rr.mcmp});')
        w('if let Ok(x) = &rv { assert!(bytes_eq_m(&a.buf, a.len, x, x.len()), "C18: encode_to_vec bytes differ from encode"); }')
        w('if let Ok(x) = &rb { assert!(bytes_eq_m(&a.buf, a.len, x, x.len()), "C18: encode_to_bytes bytes differ from encode"); }')
        w('assert!(pre.len() == 2 + a.len && pre[0] == 0xAA && pre[1] == 0x55, "C18: encoding into a non-empty buffer disturbed its content");')
        w('assert!(bytes_eq_m(&a.buf, a.len, &pre[2..], pre.len() - 2), "C18: appended bytes differ from encode");')
        w.close()
        w.open('Err(e) => {')
        w('assert!(match (&rv, &rb, &rp) { (Err(x), Err(y), Err(z)) => eerr_eq(x, e) && eerr_eq(y, e) && eerr_eq(z, e), _ => false }, "C18: provided encoders disagree with encode on failure");')
        w.close()
        w.close()
        w('std::mem::forget(ra); std::mem::forget(rv); std::mem::forget(rb); std::mem::forget(rp); std::mem::forget(pre);')

    def h_c18e(self, w: W, t: str, L: int):
        """encode laws on arbitrary drawn values (including ones on which encode fails)"""
        w(f'#[kani::proof]\n#[kani::unwind({self.unwind_v() + 1})]')
        w.open(f'fn c18e_{t}() {{')
        w('let mut drawn = true;')
        w(f'let rv_ = draw_{t}(&mut KaniSrc, {self.K}, {self.K}, &mut drawn);')
        w('kani::assume(drawn);')
        w(f'let v = match build_{t}(&rv_) {{ Some(v) => v, None => return }};')
        w('kani::cover!(true, "accepting path");')
        self._encode_laws(w, 'v')
        w('std::mem::forget(v);')
        w.close()

    def unwind_v(self) -> int:
        """loops of the value-driven harnesses: draw loops (<= 6), arrays <= K, output <= OCAP via memcpy,
        decode of the encoding (<= pcap octets)"""
        return max(self.K, self.rr.pdraw, self.max_static_count()) + 2

    def max_static_count(self) -> int:
        m = 0
        for n, fs in self.m.fields.items():
            for f in fs:
                if f.kind == 'array' and f.count is not None:
                    m = max(m, f.count)
        return m

    # ------------------------------------------------------------------ module
    def module(self, generated: str, harnesses: List[Tuple[str, str]], need_ref=True) -> str:
        """harnesses: [(kind, type)]"""
        w = W()
        w(generated)
        if need_ref:
            w.open('pub mod rf {')
            w('use super::*;')
            w('use crate::support::*;')
            w(self.rr.emit_decode_side())
            if any(k in ('c02', 'c03', 'c05', 'c16', 'c17', 'c06v', 'c18d', 'c18e', 'c04r') for k, _, _ in harnesses) or self.force_encode_side:
                w(self.rr.emit_encode_side())
            w.close()
        w('#[cfg(kani)]')
        w.open('mod h {')
        w('use super::*;')
        if need_ref:
            w('use super::rf::*;')
        w('use crate::support::*;')
        for kind, t, L in harnesses:
            getattr(self, 'h_' + kind)(w, t, L)
        w.close()
        return w.text()
