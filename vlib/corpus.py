"""The corpus of descriptions: the bounded "for all programs" of every claim.

R: the repository's own descriptions (canonical test file LE + BE twin, examples).
F1..F8: systematic families whose parameters are the decision points of the
generators (decoder.rs / encoder.rs / types.rs / mod.rs / python.rs).

Each `Desc` carries our own model (`model.File`), printed to PDL for the pdlc
under test.  `rust` / `python` say which backends support its constructs.
"""
from __future__ import annotations

import os
import random
import re
from dataclasses import dataclass, field as dfield
from typing import List, Optional

from . import model as M
from .build import REPO


@dataclass
class Desc:
    id: str
    file: M.File
    family: str
    rust: bool = True
    python: bool = True
    types: Optional[List[str]] = None     # types to check (default: all packets and structs)
    roundtrip: bool = True                # in the round-trippable class of C02
    notes: str = ''
    core: bool = False                    # always part of the quick tier selection
    core_kinds: Optional[dict] = None     # type -> harness kinds that are core (None: every type, every kind)

    def check_types(self):
        if self.types is not None:
            return self.types
        return [d.name for d in self.file.decls if d.kind in ('packet', 'struct')]


BOUNDARY_W = [1, 7, 8, 9, 15, 16, 17, 24, 31, 32, 33, 40, 48, 56, 57, 63, 64]


def _le(decls, name=''):
    return M.File('little', decls, name)


def both(desc: Desc) -> List[Desc]:
    """the description and its big-endian twin"""
    t = Desc(desc.id + '_be', desc.file.twin(), desc.family, desc.rust, desc.python, desc.types,
             desc.roundtrip, desc.notes, desc.core, desc.core_kinds)
    desc.id += '_le'
    return [desc, t]


# --------------------------------------------------------------------------- enum shapes
def enum_shapes(width, prefix='E'):
    """the enum shapes that flip enum_is_complete / is_open / is_primitive and the
    trailing `_ => Err` arm, at the given width"""
    mx = (1 << width) - 1
    out = {}
    V, R, O = M.TagValue, M.TagRange, M.TagOther
    if width >= 2:
        out['closed'] = [V('A', 0), V('B', mx)] if width > 1 else [V('A', 0)]
        out['open'] = [V('A', 1), V('B', mx), O('UNKNOWN')]
        out['open_middle'] = [V('A', 1), O('UNKNOWN'), V('B', mx)]
        out['closed_range'] = [V('A', 0), R('B', 1, mx - 1, [V('X', 1)] + ([V('Y', mx - 1)] if mx - 1 > 1 else []))]
        out['open_range'] = [V('A', 0), R('B', 1, mx - 1, [V('X', 1)]), O('UNKNOWN')]
        out['complete_range'] = [V('A', 0), R('B', 1, mx, [V('X', mx)])]
        out['range_notags'] = [R('B', 1, mx - 1), V('Z', mx)]
        out['complete_range_open'] = [R('B', 0, mx, [V('X', 0)]), O('UNKNOWN')]
    else:
        out['closed'] = [V('A', 0)]
        out['open'] = [V('A', 1), O('UNKNOWN')]
        out['complete'] = [V('A', 0), V('B', 1)]
    if width <= 3:
        out['complete'] = [V(f'T{i}', i) for i in range(1 << width)]
        out['complete_open'] = [V(f'T{i}', i) for i in range(1 << width)] + [O('UNKNOWN')]
    return {k: M.enum(f'{prefix}_{k}_{width}', width, v) for k, v in out.items()}


# --------------------------------------------------------------------------- F1 bit-fields
def _bitfield_packet(name, pre, w, post, kind, decls, rust_only=False):
    """a packet whose first chunk is [s0:pre, X:w, s1:post]; X of the given kind."""
    fs = []
    if pre:
        fs.append(M.scalar('s0', pre))
    tail = []
    if kind == 'scalar':
        fs.append(M.scalar('x', w))
    elif kind == 'reserved':
        fs.append(M.reserved(w))
    elif kind == 'fixed':
        val = ((1 << w) - 1) & 0xA5A5A5A5A5A5A5A5 if w > 1 else 1
        fs.append(M.fixed(val, w))
    elif kind.startswith('enum:'):
        e = enum_shapes(w, 'E' + name)[kind[5:]]
        decls.append(e)
        fs.append(M.typedef('x', e.name))
    elif kind.startswith('fixed_enum:'):
        e = enum_shapes(w, 'E' + name)[kind[11:]]
        decls.append(e)
        tag = [t for t in e.tags if isinstance(t, M.TagValue)][-1].name
        fs.append(M.fixed_enum(tag, e.name))
    elif kind == 'size':
        fs.append(M.size('arr', w))
        tail = [M.array('arr', width=8)]
    elif kind == 'count':
        fs.append(M.count('arr', w))
        tail = [M.array('arr', width=16)]
    elif kind == 'psize':
        fs.append(M.size('_payload_', w))
        tail = [M.payload()]
    elif kind == 'flag':
        assert w == 1
        fs.append(M.scalar('x', 1))
        tail = [M.scalar('opt', 16, cond=('x', 1))]
    else:
        raise ValueError(kind)
    if post:
        fs.append(M.scalar('s1', post))
    fs.extend(tail)
    return M.packet(name, fs)


def f1(tier, rnd) -> List[Desc]:
    out = []
    widths = BOUNDARY_W if tier == 'quick' else list(range(1, 65))
    pres = [0, 3, 7] if tier == 'quick' else list(range(8))
    kinds_all = ['scalar', 'reserved', 'fixed', 'enum:closed', 'enum:open', 'enum:closed_range', 'enum:open_range',
                 'fixed_enum:closed', 'size', 'count', 'psize']
    for w in widths:
        if tier == 'quick':
            kinds = ['scalar'] + rnd.sample(kinds_all[1:], 2)
        else:
            kinds = kinds_all
        for kind in kinds:
            decls, pk = [], []
            for pre in pres:
                if pre + w > 64:
                    continue
                post = (-(pre + w)) % 8
                if pre + w + post > 64:
                    continue
                if kind.startswith(('enum', 'fixed_enum')) and w < 2 and kind.endswith('range'):
                    continue
                pk.append(_bitfield_packet(f'P{pre}', pre, w, post, kind, decls))
            if not pk:
                continue
            kid = kind.replace(':', '_')
            out.extend(both(Desc(f'f1_{kid}_w{w}', _le(decls + pk), 'F1')))
    # flags
    decls = []
    pk = [_bitfield_packet(f'P{pre}', pre, 1, 7 - pre, 'flag', decls) for pre in (0, 3, 7)]
    out.extend(both(Desc('f1_flag', _le(pk), 'F1')))
    # multi-field chunks: several fields of varied kinds in one 64-bit chunk
    e = enum_shapes(5, 'EM')['closed_range']
    pk = M.packet('Multi', [M.scalar('a', 3), M.typedef('e', e.name), M.reserved(9), M.scalar('b', 24),
                            M.fixed(0x155, 9), M.scalar('c', 14), M.scalar('d', 40), M.scalar('f', 24)])
    out.extend(both(Desc('f1_multi', _le([e, pk]), 'F1')))
    return out


# --------------------------------------------------------------------------- F6 enums
def f6(tier, rnd) -> List[Desc]:
    out = []
    widths = [1, 2, 3, 7, 8, 9, 16, 24, 32, 33, 40, 63, 64] if tier == 'quick' else list(range(1, 65))
    for w in widths:
        shapes = enum_shapes(w, 'E')
        decls = list(shapes.values())
        pk = []
        for k, e in shapes.items():
            post = (-w) % 8
            fs = [M.typedef('e', e.name)] + ([M.reserved(post)] if post else [])
            pk.append(M.packet(f'P_{k}', fs))
        out.extend(both(Desc(f'f6_w{w}', _le(decls + pk), 'F6')))
    return out


# --------------------------------------------------------------------------- F2 arrays
def _elem_decls():
    E8 = M.enum('En8', 8, [M.TagValue('A', 1), M.TagValue('B', 2), M.TagRange('R', 0x10, 0x1f)])
    E16 = M.enum('En16', 16, [M.TagValue('A', 0xaabb), M.TagValue('B', 0xccdd)])
    Sst = M.struct('Sst', [M.scalar('a', 3), M.scalar('b', 13)])
    Sdy = M.struct('Sdy', [M.size('v', 2), M.reserved(6), M.array('v', width=8)])
    return {'En8': E8, 'En16': E16, 'Sst': Sst, 'Sdy': Sdy}


def _array_packet(name, elem, shape, pad, pos, sw=4):
    """elem: 8/16/24/64 or type name; shape: static/count/size/rest"""
    kw = {'width': elem} if isinstance(elem, int) else {'type_id': elem}
    fs = []
    if pos == 'after':
        fs.append(M.scalar('h', 8))
    if shape == 'static':
        fs.append(M.array('arr', count=2, **kw))
    elif shape == 'count':
        fs += [M.count('arr', sw), M.reserved(8 - sw)] if sw < 8 else [M.count('arr', sw)]
        fs.append(M.array('arr', **kw))
    elif shape == 'size':
        fs += [M.size('arr', sw), M.reserved(8 - sw)] if sw < 8 else [M.size('arr', sw)]
        fs.append(M.array('arr', **kw))
    else:
        fs.append(M.array('arr', **kw))
    if pad:
        fs.append(M.padding(pad))
    if pos == 'before' or (pos == 'after' and shape != 'rest') or (pad and pos != 'last'):
        if shape != 'rest' or pad:
            fs.append(M.scalar('t', 8))
    return M.packet(name, fs)


def f2(tier, rnd) -> List[Desc]:
    out = []
    ed = _elem_decls()
    elems = [8, 16, 24, 64, 'En8', 'En16', 'Sst', 'Sdy']
    for elem in elems:
        decls = [ed[elem]] if isinstance(elem, str) else []
        pk = []
        for shape in ('static', 'count', 'size', 'rest'):
            pk.append(_array_packet(f'A_{shape}', elem, shape, None, 'last'))
            if shape != 'rest':
                pk.append(_array_packet(f'A_{shape}_t', elem, shape, None, 'before'))
        ename = elem if isinstance(elem, str) else f'u{elem}'
        out.extend(both(Desc(f'f2_{ename}', _le(decls + pk), 'F2', core=(elem == 24))))
        # padded variants; 'rest' inside a padding is not round-trippable (padding becomes elements)
        pk = []
        padsz = 6 if elem != 64 else 16
        for shape in ('count', 'size'):
            pk.append(_array_packet(f'A_{shape}_pad', elem, shape, padsz, 'before'))
        out.extend(both(Desc(f'f2_{ename}_pad', _le(decls + pk), 'F2')))
        pk = [_array_packet('A_rest_pad', elem, 'rest', padsz, 'before')]
        out.extend(both(Desc(f'f2_{ename}_restpad', _le(decls + pk), 'F2', roundtrip=False)))
    # narrow size/count fields so that overflow is reachable with <= 4 elements (C05)
    pk = []
    for sw in (1, 2, 3):
        pk.append(_array_packet(f'A_count{sw}', 8, 'count', None, 'last', sw))
        pk.append(_array_packet(f'A_size{sw}', 16, 'size', None, 'last', sw))
    out.extend(both(Desc('f2_narrow', _le(pk), 'F2')))
    pk = [M.packet('A_pad2', [M.array('arr', width=8), M.padding(2), M.scalar('t', 8)]),
          M.packet('A_pad3c', [M.count('arr', 8), M.array('arr', width=16), M.padding(3), M.scalar('t', 8)])]
    out.extend(both(Desc('f2_smallpad', _le(pk), 'F2', roundtrip=False)))
    # static count of exactly one element, static arrays with padding (special-cased in the generators)
    pk = [M.packet('One8', [M.scalar('tag', 8), M.array('x', width=8, count=1)]),
          M.packet('One32', [M.scalar('tag', 8), M.array('x', width=32, count=1)]),
          M.packet('OneEn', [M.scalar('tag', 8), M.array('x', type_id='En16', count=1), M.scalar('t', 8)]),
          M.packet('OneSst', [M.array('x', type_id='Sst', count=1)]),
          M.packet('StaticPad', [M.scalar('a', 8), M.array('x', width=16, count=2), M.padding(6), M.scalar('b', 8)]),
          M.packet('StaticPadEq', [M.array('x', width=16, count=2), M.padding(4), M.scalar('b', 8)]),
          M.packet('PayloadThenPad', [M.scalar('tag', 8), M.payload(), M.array('trailer', width=16, count=2), M.padding(6)]),
          M.packet('CountPad', [M.count('x', 8), M.array('x', width=16), M.padding(4)])]
    out.extend(both(Desc('f2_static_special', _le([ed['En16'], ed['Sst']] + pk), 'F2', core=True)))
    # arrays of an enum whose width is not a native integer width (element octets != backing integer octets)
    En24 = M.enum('En24', 24, [M.TagValue('A', 0xa0b0c0), M.TagValue('B', 0x010203)])
    pk = [M.packet('EnArrSz', [M.size('x', 8), M.array('x', type_id='En24'), M.scalar('t', 8)]),
          M.packet('EnArrCnt', [M.count('x', 8), M.array('x', type_id='En24')])]
    out.extend(both(Desc('f2_en24_arrays', _le([En24] + pk), 'F2', core=True)))
    # arrays of derived structs (static total size through inheritance)
    Base = M.struct('Base', [M.scalar('tag', 8), M.payload()])
    Item = M.struct('Item', [M.scalar('v', 16)], 'Base', [('tag', 7)])
    pk = [M.packet('Table', [M.scalar('hdr', 8), M.array('items', type_id='Item'), M.padding(8), M.scalar('trailer', 8)]),
          M.packet('TableSz', [M.size('items', 8), M.array('items', type_id='Item'), M.scalar('trailer', 8)]),
          M.packet('Outer', [M.scalar('kind', 8), M.size('_payload_', 8), M.payload()]),
          M.packet('Inner', [M.array('items', type_id='Item')], 'Outer', [('kind', 1)])]
    out.extend(both(Desc('f2_derived_elem', _le([Base, Item] + pk), 'F2', python=False, core=True,
                         types=['Table', 'TableSz', 'Inner'],
                         notes='python cannot parse arrays of derived structs (Child.parse needs the parent fields)')))
    # element-size fields (Rust backend only)
    U = M.struct('Uk', [M.array('v', width=8)])
    pk = [M.packet('ES_static', [M.elemsize('arr', 4), M.reserved(4), M.array('arr', type_id='Uk', count=2)]),
          M.packet('ES_count', [M.count('arr', 4), M.elemsize('arr', 4), M.array('arr', type_id='Uk'),
                                M.scalar('t', 8)]),
          M.packet('ES_size', [M.size('arr', 4), M.elemsize('arr', 4), M.array('arr', type_id='Uk'),
                               M.scalar('t', 8)]),
          M.packet('ES_rest', [M.elemsize('arr', 8), M.array('arr', type_id='Uk')])]
    out.extend(both(Desc('f2_elemsize', _le([U] + pk), 'F2', python=False)))
    # array size modifier (Python backend only)
    pk = [M.packet('SM', [M.size('arr', 4), M.reserved(4), M.array('arr', type_id='Sdy', modifier=2)]),
          M.packet('SMb', [M.size('arr', 8), M.array('arr', width=8, modifier=1), M.scalar('t', 8)])]
    out.extend(both(Desc('f2_sizemod', _le([ed['Sdy']] + pk), 'F2', rust=False)))
    return out


# --------------------------------------------------------------------------- F3 payload / body
def f3(tier, rnd) -> List[Desc]:
    out = []
    for kind, mk in (('payload', M.payload), ('body', M.body)):
        tgt = '_payload_' if kind == 'payload' else '_body_'
        pk = [M.packet('Sized', [M.scalar('a', 8), M.size(tgt, 8), mk()]),
              M.packet('Sized3', [M.size(tgt, 3), M.reserved(5), mk(), M.scalar('t', 16)]),
              M.packet('Last', [M.scalar('a', 16), mk()]),
              M.packet('Mid', [mk(), M.scalar('t', 16)]),
              M.packet('Mid3', [M.scalar('a', 8), mk(), M.scalar('t', 24), M.scalar('u', 8)]),
              M.struct('SSized', [M.size(tgt, 8), mk()]),
              M.struct('SLast', [M.scalar('a', 8), mk()]),
              M.packet('Host', [M.typedef('s', 'SSized'), M.scalar('t', 8)])]
        out.extend(both(Desc(f'f3_{kind}', _le(pk), 'F3')))
    pk = [M.packet('Empty', []), M.packet('Blob', [M.payload()]), M.struct('SBlob', [M.array('v', width=16)]),
          M.packet('OnlyReserved', [M.reserved(8)]),
          M.packet('TrailingReserved', [M.size('x', 8), M.array('x', width=8), M.reserved(16)])]
    out.extend(both(Desc('f3_empty', _le(pk), 'F3', core=True)))
    pk = [M.packet('Mod2', [M.size('_payload_', 3), M.reserved(5), M.payload(2)]),
          M.packet('Mod1t', [M.size('_payload_', 8), M.payload(1), M.scalar('t', 8)])]
    out.extend(both(Desc('f3_modifier', _le(pk), 'F3')))
    return out


# --------------------------------------------------------------------------- F4 inheritance
def f4(tier, rnd) -> List[Desc]:
    out = []
    E = M.enum('Col', 8, [M.TagValue('RED', 1), M.TagValue('GREEN', 2), M.TagValue('BLUE', 7)])
    # scalar constraints, depth 1
    d = [M.packet('P', [M.scalar('a', 8), M.size('_payload_', 8), M.payload()]),
         M.packet('CA', [M.scalar('b', 8)], 'P', [('a', 0)]),
         M.packet('CB', [M.scalar('c', 16)], 'P', [('a', 1)])]
    out.extend(both(Desc('f4_scalar', _le(d), 'F4')))
    # enum constraints, unsized payload, field after payload
    d = [E, M.packet('P', [M.typedef('e', 'Col'), M.payload(), M.scalar('t', 8)]),
         M.packet('CR', [M.scalar('b', 8)], 'P', [('e', 'RED')]),
         M.packet('CG', [M.scalar('c', 16), M.scalar('d', 8)], 'P', [('e', 'GREEN')])]
    out.extend(both(Desc('f4_enum', _le(d), 'F4')))
    # depth 3 with constraints at several levels and an alias
    d = [M.packet('P', [M.scalar('a', 4), M.scalar('b', 4), M.payload()]),
         M.packet('Q', [M.scalar('c', 8), M.payload()], 'P', [('a', 1)]),
         M.packet('R', [M.scalar('d', 8)], 'Q', [('b', 2), ('c', 3)]),
         M.packet('R2', [M.scalar('d2', 16)], 'Q', [('b', 3)]),
         M.packet('Al', [M.payload()], 'P', [('a', 2)]),
         M.packet('AlC', [M.scalar('z', 8)], 'Al', [('b', 5)])]
    out.extend(both(Desc('f4_deep', _le(d), 'F4')))
    # children distinguished only by constant size
    d = [M.packet('P', [M.scalar('a', 8), M.payload()]),
         M.packet('S1', [M.scalar('x', 8)], 'P'),
         M.packet('S2', [M.scalar('y', 16)], 'P')]
    out.extend(both(Desc('f4_bysize', _le(d), 'F4', python=False,
                         notes='python tries children in order; size-only dispatch is Rust specific')))
    # constraint + size
    d = [M.packet('P', [M.scalar('a', 8), M.payload()]),
         M.packet('S1', [M.scalar('x', 8)], 'P', [('a', 1)]),
         M.packet('S2', [M.scalar('y', 16)], 'P', [('a', 1)]),
         M.packet('Ext', [M.scalar('h', 8), M.payload()], 'P', [('a', 2)])]
    out.extend(both(Desc('f4_cons_size', _le(d), 'F4', python=False)))
    # constraint values above 2^32
    d = [M.packet('Frame', [M.scalar('tag', 40), M.payload()]),
         M.packet('Ack', [M.scalar('x', 8)], 'Frame', [('tag', 7)]),
         M.packet('Ping', [M.scalar('x', 8)], 'Frame', [('tag', 0x0100000001)]),
         M.packet('Pong', [M.scalar('y', 8)], 'Frame', [('tag', 0x0200000001)])]
    out.extend(both(Desc('f4_wide_constraint', _le(d), 'F4', core=True)))
    # parent without payload
    d = [M.packet('P', [M.scalar('a', 8), M.scalar('b', 8)]),
         M.packet('C', [], 'P', [('a', 7)])]
    out.extend(both(Desc('f4_nopayload', _le(d), 'F4', python=False)))
    # struct inheritance
    d = [M.struct('S', [M.scalar('a', 8), M.size('_payload_', 8), M.payload()]),
         M.struct('SA', [M.scalar('b', 8)], 'S', [('a', 1)]),
         M.struct('SB', [M.scalar('c', 16)], 'S', [('a', 2)]),
         M.packet('Host', [M.typedef('s', 'S'), M.scalar('t', 8)])]
    out.extend(both(Desc('f4_struct', _le(d), 'F4')))
    # depth 4
    d = [M.packet('L0', [M.scalar('a', 8), M.payload()]),
         M.packet('L1', [M.scalar('b', 8), M.payload()], 'L0', [('a', 1)]),
         M.packet('L2', [M.scalar('c', 8), M.payload()], 'L1', [('b', 2)]),
         M.packet('L3', [M.scalar('d', 8), M.payload()], 'L2', [('c', 3)]),
         M.packet('L4', [M.scalar('e', 8)], 'L3', [('d', 4)])]
    out.extend(both(Desc('f4_depth4', _le(d), 'F4')))
    # a struct with its own payload used as a field of a child of a size-delimited parent
    Tlv = M.struct('Tlv', [M.scalar('tag', 8), M.size('_payload_', 8), M.payload()])
    d = [Tlv, M.packet('Parent', [M.scalar('op', 8), M.size('_payload_', 8), M.payload()]),
         M.packet('Child', [M.typedef('t', 'Tlv'), M.scalar('x', 16)], 'Parent', [('op', 3)]),
         M.packet('Flat', [M.typedef('t', 'Tlv'), M.scalar('x', 8)]),
         M.packet('Items', [M.size('v', 8), M.array('v', type_id='Tlv'), M.scalar('x', 8)])]
    out.extend(both(Desc('f4_tlv_field', _le(d), 'F4', core=True)))
    # child with arrays and a sized payload of its own
    d = [M.packet('P', [M.scalar('a', 8), M.size('_payload_', 8), M.payload()]),
         M.packet('C', [M.count('v', 8), M.array('v', width=16)], 'P', [('a', 9)])]
    out.extend(both(Desc('f4_child_array', _le(d), 'F4')))
    return out


# --------------------------------------------------------------------------- F5 optional
def f5(tier, rnd) -> List[Desc]:
    E = M.enum('En16', 16, [M.TagValue('A', 0xaabb), M.TagValue('B', 0xccdd)])
    Sst = M.struct('Sst', [M.scalar('a', 8)])
    Sdy = M.struct('Sdy', [M.size('v', 2), M.reserved(6), M.array('v', width=8)])
    pk = [M.packet('OptScalar', [M.scalar('c0', 1), M.scalar('c1', 1), M.reserved(6),
                                 M.scalar('a', 24, cond=('c0', 0)), M.scalar('b', 32, cond=('c1', 1))]),
          M.packet('OptEnum', [M.scalar('c0', 1), M.scalar('c1', 1), M.reserved(6),
                               M.typedef('a', 'En16', cond=('c0', 0)), M.typedef('b', 'En16', cond=('c1', 1))]),
          M.packet('OptStruct', [M.scalar('c0', 1), M.scalar('c1', 1), M.reserved(6),
                                 M.typedef('a', 'Sst', cond=('c0', 0)), M.typedef('b', 'Sdy', cond=('c1', 1))]),
          M.packet('Opt8', [M.scalar('x', 7), M.scalar('c', 1), M.scalar('a', 8, cond=('c', 1)), M.scalar('t', 8)]),
          M.packet('Opt64', [M.scalar('c', 1), M.reserved(7), M.scalar('a', 64, cond=('c', 1))])]
    out = both(Desc('f5_basic', _le([E, Sst, Sdy] + pk), 'F5'))
    En24 = M.enum('En24', 24, [M.TagValue('A', 0xa0b0c0), M.TagValue('B', 0x010203)])
    pk = [M.packet('Opt24', [M.scalar('c', 1), M.reserved(7), M.scalar('a', 24, cond=('c', 1))]),
          M.packet('Opt40p', [M.scalar('c', 1), M.reserved(7), M.scalar('a', 40, cond=('c', 1)), M.payload()]),
          M.packet('Opt56t', [M.scalar('c', 1), M.reserved(7), M.scalar('a', 56, cond=('c', 0)), M.scalar('t', 8)]),
          M.packet('OptEn24', [M.scalar('c', 1), M.reserved(7), M.typedef('e', 'En24', cond=('c', 1))]),
          M.packet('OptEn24t', [M.scalar('c', 1), M.scalar('d', 1), M.reserved(6), M.typedef('e', 'En24', cond=('c', 1)),
                                M.scalar('k', 16, cond=('d', 1)), M.scalar('tail', 8)]),
          M.packet('Par', [M.scalar('op', 8), M.size('_payload_', 8), M.payload()]),
          M.packet('OptChild', [M.scalar('c', 1), M.reserved(7), M.typedef('e', 'En24', cond=('c', 1))], 'Par', [('op', 9)])]
    out += both(Desc('f5_odd_widths', _le([En24] + pk), 'F5', core=True))
    pk = [M.packet('TwoSame', [M.scalar('c', 1), M.reserved(7), M.scalar('a', 8, cond=('c', 1)),
                               M.scalar('b', 16, cond=('c', 1))]),
          M.packet('TwoOpp', [M.scalar('c', 1), M.reserved(7), M.scalar('a', 8, cond=('c', 1)),
                              M.scalar('b', 16, cond=('c', 0))])]
    out += both(Desc('f5_shared_flag', _le(pk), 'F5', python=False, core=True,
                     notes='two optional fields on one flag: python serializer only looks at the first'))
    return out


# --------------------------------------------------------------------------- F7 typedef / custom
def f7(tier, rnd) -> List[Desc]:
    out = []
    In = M.struct('In', [M.scalar('a', 4), M.scalar('b', 12)])
    Dy = M.struct('Dy', [M.count('v', 8), M.array('v', width=8)])
    Mid = M.struct('Mid', [M.typedef('i', 'In'), M.typedef('d', 'Dy'), M.scalar('z', 8)])
    pk = [M.packet('Nest', [M.scalar('h', 8), M.typedef('m', 'Mid'), M.typedef('i2', 'In')]),
          M.packet('NestDyLast', [M.typedef('i', 'In'), M.typedef('d', 'Dy')])]
    out.extend(both(Desc('f7_nested', _le([In, Dy, Mid] + pk), 'F7')))
    # the same declarations with forward references (uses before declarations)
    pk = [M.packet('Nest', [M.scalar('h', 8), M.typedef('m', 'Mid'), M.typedef('i2', 'In')])]
    out.extend(both(Desc('f7_forward', _le(pk + [Mid, Dy, In]), 'F7', core=True)))
    # statically sized struct fields that are not at offset 0 of their static run (slice start != 0)
    Pt = M.struct('Pt', [M.scalar('x', 8), M.scalar('y', 16)])
    Un = M.struct('Un', [M.scalar('v', 8)])
    pk = [M.packet('Second', [M.scalar('kind', 8), M.typedef('p', 'Pt'), M.scalar('t', 8)]),
          M.packet('Third', [M.typedef('a', 'Un'), M.typedef('b', 'Un')]),
          M.struct('Holder', [M.scalar('k', 16), M.typedef('p', 'Pt')])]
    out.extend(both(Desc('f7_static_offset', _le([Pt, Un] + pk), 'F7', core=True)))
    for w in (8, 16, 24, 32, 40, 64):
        cf = M.custom_field(f'Cf{w}', w)
        pk = [M.packet('C', [M.typedef('c', cf.name)]),
              M.packet('C2', [M.scalar('a', 8), M.typedef('c', cf.name), M.scalar('t', 8)])]
        out.extend(both(Desc(f'f7_custom{w}', _le([cf] + pk), 'F7', python=False, core=(w == 16))))
    return out


# --------------------------------------------------------------------------- F8 groups
def f8(tier, rnd) -> List[Desc]:
    E = M.enum('En16', 16, [M.TagValue('A', 0xaabb), M.TagValue('B', 0xccdd)])
    G1 = M.group_decl('G1', [M.scalar('a', 16), M.scalar('b', 4), M.scalar('c', 4)])
    G2 = M.group_decl('G2', [M.typedef('e', 'En16'), M.group('G1', [('b', 3)])])
    G3 = M.group_decl('G3', [M.scalar('h', 8), M.group('G2')])
    pk = [M.packet('Plain', [M.group('G1')]),
          M.packet('Cons', [M.group('G1', [('a', 42)]), M.scalar('t', 8)]),
          M.packet('Nested', [M.group('G2', [('e', 'A')])]),
          M.packet('Deep', [M.group('G3', [('h', 0x12)]), M.scalar('t', 8)]),
          M.struct('SG', [M.group('G2')])]
    return both(Desc('f8_groups', _le([E, G1, G2, G3] + pk), 'F8'))


# --------------------------------------------------------------------------- R repository files
RUST_EXCLUDE = ['UnsizedCustomField', 'Packet_Custom_Field_VariableSize', 'Struct_Custom_Field_VariableSize_',
                'Struct_Custom_Field_VariableSize', 'Checksum', 'Packet_Checksum_Field_FromStart',
                'Packet_Checksum_Field_FromEnd', 'Struct_Checksum_Field_FromStart_',
                'Struct_Checksum_Field_FromStart', 'Struct_Checksum_Field_FromEnd_', 'Struct_Checksum_Field_FromEnd',
                'Packet_Array_Field_UnsizedElement_SizeModifier', 'Struct_Array_Field_UnsizedElement_SizeModifier_',
                'Struct_Array_Field_UnsizedElement_SizeModifier', 'Packet_Array_ElementSize_UnsizedCustomField',
                'Packet_Array_ElementSize_SizedCustomField']
PYTHON_EXCLUDE = ['Packet_Array_Field_VariableElementSize_ConstantSize',
                  'Packet_Array_Field_VariableElementSize_VariableSize',
                  'Packet_Array_Field_VariableElementSize_VariableCount',
                  'Packet_Array_Field_VariableElementSize_UnknownSize']


def canonical_texts():
    le = open(os.path.join(REPO, 'pdl-compiler', 'tests', 'canonical', 'le_test_file.pdl')).read()
    be = re.sub(r'// Start: little_endian_only.*?// End: little_endian_only', '', le, flags=re.S)
    be = be.replace('little_endian_packets', 'big_endian_packets')
    return le, be


def _without(f: M.File, names) -> M.File:
    return M.File(f.endianness, [d for d in f.decls if d.name not in names and d.kind != 'test'], f.name)


def repo_descs(backend) -> List[Desc]:
    le, be = canonical_texts()
    out = []
    for tag, text in (('le', le), ('be', be)):
        f = M.parse_pdl(text, f'canonical_{tag}')
        if backend == 'rust':
            out.append(Desc(f'r_canonical_rust_{tag}', _without(f, RUST_EXCLUDE), 'R', python=False))
        else:
            out.append(Desc(f'r_canonical_python_{tag}', _without(f, PYTHON_EXCLUDE), 'R', rust=False))
    return out


# which (type, harness kind) pairs of the core descriptions are always in the quick tier: each pair is a
# decision point of a generator that a seeded change showed the sampled families can miss
CORE_KINDS = {
    'f2_static_special': {'One32': ['c01', 'c04'], 'OneEn': ['c04'], 'StaticPad': ['c03', 'c16'],
                          'PayloadThenPad': ['c04', 'c02'], 'CountPad': ['c01', 'c04'], 'One8': ['c03']},
    'f2_derived_elem': {'Table': ['c03'], 'Inner': ['c03']},
    'f2_en24_arrays': {'EnArrSz': ['c03', 'c04'], 'EnArrCnt': ['c02']},
    'f5_odd_widths': {'Opt24': ['c01', 'c04', 'c02', 'c03', 'c05'], 'Opt40p': ['c03'], 'OptEn24': ['c03', 'c05'],
                      'OptChild': ['c02', 'c04r'], 'Opt56t': ['c04']},
    'f5_shared_flag': {'TwoSame': ['c05'], 'TwoOpp': ['c05']},
    'f4_tlv_field': {'Child': ['c02', 'c03']},
    'f3_empty': {'Empty': ['c18d', 'c01'], 'Blob': ['c18d', 'c04'], 'SBlob': ['c18d'], 'OnlyReserved': ['c04'],
                 'TrailingReserved': ['c04']},
    'f4_wide_constraint': {'Frame': ['c06s', 'c06t'], 'Ping': ['c06v', 'c03']},
    'f7_forward': {'Nest': ['c03']},
    'f7_static_offset': {'Second': ['c04']},
    'f7_custom16': {'C': ['c01'], 'C2': ['c03']},
    'f2_u24': {'A_count': ['c05', 'c02'], 'A_static': ['c03']},
}


# --------------------------------------------------------------------------- assembly
FAMILIES = {'F1': f1, 'F2': f2, 'F3': f3, 'F4': f4, 'F5': f5, 'F6': f6, 'F7': f7, 'F8': f8}


def corpus(tier='quick', seed=0, families=None, backend=None) -> List[Desc]:
    rnd = random.Random(seed)
    out = []
    for k, fn in FAMILIES.items():
        if families and k not in families:
            continue
        out.extend(fn(tier, rnd))
    if not families or 'R' in families:
        if backend in ('rust', 'python'):
            out.extend(repo_descs(backend))
    for d in out:
        base = re.sub(r'_(le|be)$', '', d.id)
        if d.core and base in CORE_KINDS:
            d.core_kinds = CORE_KINDS[base]
    if backend == 'rust':
        out = [d for d in out if d.rust]
    elif backend == 'python':
        out = [d for d in out if d.python]
    return out
