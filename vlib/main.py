"""entry point: ./check <ID> [--tier t] [--seed n] | replay <path> | setup"""
from __future__ import annotations

import argparse
import importlib
import os
import sys
import traceback

from .common import seed_from_env

CHECKS = {'C01': 'c01', 'C02': 'c02', 'C03': 'c03', 'C04': 'c04', 'C05': 'c05', 'C06': 'c06', 'C07': 'c07',
          'C12': 'c12', 'C13': 'c13', 'C15': 'c15', 'C16': 'c16', 'C17': 'c17', 'C18': 'c18'}


def main():
    ap = argparse.ArgumentParser()
    ap.add_argument('what')
    ap.add_argument('path', nargs='?')
    ap.add_argument('--tier', default=os.environ.get('VERIF_TIER', 'quick'))
    ap.add_argument('--seed', type=int, default=seed_from_env())
    a = ap.parse_args()
    if a.what == 'setup':
        from . import setup
        return setup.main()
    if a.what == 'replay':
        from . import replay
        return replay.main(a.path)
    if a.what not in CHECKS:
        print(f'unknown check {a.what}', file=sys.stderr)
        return 2
    tier = a.tier if a.tier in ('quick', 'thorough') else 'quick'
    try:
        mod = importlib.import_module('.' + CHECKS[a.what], 'vlib')
        return mod.main(tier, a.seed)
    except Exception:  # noqa: a crash of the machinery is never a pass
        traceback.print_exc()
        print(f'INCONCLUSIVE property={a.what} the check itself failed')
        return 2


if __name__ == '__main__':
    sys.exit(main())
