"""Build pdlc from /repo's current working tree and run it on descriptions."""
from __future__ import annotations

import hashlib
import os
import subprocess
import sys
import time
from concurrent.futures import ThreadPoolExecutor

VERIF = os.path.dirname(os.path.dirname(os.path.abspath(__file__)))
REPO = os.environ.get('PDL_REPO', '/repo')
# an alternative repository root (used only to try seeded changes in scratch worktrees without
# touching /repo) gets its own build, work and output directories
_ALT = '' if REPO == '/repo' else 'alt_' + hashlib.sha1(REPO.encode()).hexdigest()[:8]
TARGET = os.path.join(VERIF, 'target', _ALT) if _ALT else os.path.join(VERIF, 'target')
WORK = os.path.join(VERIF, 'work', _ALT) if _ALT else os.path.join(VERIF, 'work')
OUT = os.path.join(VERIF, 'work', _ALT, 'out') if _ALT else VERIF

ENV = dict(os.environ, CARGO_NET_OFFLINE='true', CARGO_TERM_COLOR='never')


class BuildError(Exception):
    pass


def run(cmd, cwd=None, env=None, timeout=None, check=True, inp=None):
    p = subprocess.run(cmd, cwd=cwd, env=env or ENV, input=inp, capture_output=True, text=True, timeout=timeout)
    if check and p.returncode != 0:
        raise BuildError(f'{" ".join(cmd)} failed ({p.returncode}):\n{p.stdout[-3000:]}\n{p.stderr[-6000:]}')
    return p


_pdlc = None


def build_pdlc() -> str:
    """cargo build of the pdlc binary from /repo's working tree (cargo decides what is stale)"""
    global _pdlc
    if _pdlc:
        return _pdlc
    t = time.time()
    tdir = os.path.join(TARGET, 'repo')
    run(['cargo', 'build', '--offline', '--quiet', '--manifest-path', os.path.join(REPO, 'Cargo.toml'),
         '-p', 'pdl-compiler', '--bin', 'pdlc', '--target-dir', tdir], timeout=1800)
    _pdlc = os.path.join(tdir, 'debug', 'pdlc')
    if not os.path.exists(_pdlc):
        raise BuildError('pdlc binary missing after build')
    sys.stderr.write(f'[build] pdlc ready in {time.time() - t:.1f}s\n')
    return _pdlc


class PdlcReject(Exception):
    pass


def pdlc(text: str, fmt: str, extra=(), tag='d') -> str:
    """run the freshly built pdlc on a description text; returns generated code"""
    exe = build_pdlc()
    os.makedirs(os.path.join(WORK, 'pdl'), exist_ok=True)
    h = hashlib.sha1(text.encode()).hexdigest()[:16]
    path = os.path.join(WORK, 'pdl', f'{tag}_{h}.pdl')
    with open(path, 'w') as f:
        f.write(text)
    p = subprocess.run([exe, '--output-format', fmt, *extra, path], capture_output=True, text=True, timeout=120)
    if p.returncode != 0:
        raise PdlcReject(f'pdlc --output-format {fmt} failed on {path} ({p.returncode}):\n{p.stderr[-3000:]}')
    return p.stdout


def pdlc_many(jobs, workers=16):
    """jobs: list of (text, fmt, extra). returns list of outputs or exceptions"""
    build_pdlc()

    def one(j):
        try:
            return pdlc(*j)
        except Exception as e:  # noqa
            return e
    with ThreadPoolExecutor(workers) as ex:
        return list(ex.map(one, jobs))


_driver = None


def build_driver() -> str:
    """the schema-dump driver linked against /repo's pdl-compiler (public API only)"""
    global _driver
    if _driver:
        return _driver
    import shutil
    d = os.path.join(WORK, 'driver')
    os.makedirs(os.path.join(d, 'src'), exist_ok=True)
    with open(os.path.join(VERIF, 'driver', 'Cargo.toml.in')) as f:
        toml = f.read().replace('@REPO@', REPO)
    with open(os.path.join(d, 'Cargo.toml'), 'w') as f:
        f.write(toml)
    shutil.copy(os.path.join(REPO, 'Cargo.lock'), os.path.join(d, 'Cargo.lock'))
    shutil.copy(os.path.join(VERIF, 'driver', 'src', 'main.rs'), os.path.join(d, 'src', 'main.rs'))
    tdir = os.path.join(TARGET, 'repo')
    t = time.time()
    run(['cargo', 'build', '--offline', '--quiet', '--target-dir', tdir], cwd=d, timeout=1800)
    _driver = os.path.join(tdir, 'debug', 'pdlsizes')
    sys.stderr.write(f'[build] schema driver ready in {time.time() - t:.1f}s\n')
    return _driver


def schema_sizes(paths):
    """run the driver on .pdl files; returns {path: decls json}"""
    import json
    exe = build_driver()
    out = {}
    for i in range(0, len(paths), 50):
        p = subprocess.run([exe] + paths[i:i + 50], capture_output=True, text=True, timeout=300)
        for line in p.stdout.splitlines():
            if line.startswith('{'):
                j = json.loads(line)
                out[j['file']] = j
        if p.returncode != 0 and not p.stdout:
            raise BuildError('schema driver failed: ' + p.stderr[-1500:])
    return out
