"""Build pdlc from /repo's current working tree and run it on descriptions."""
from __future__ import annotations

import hashlib
import os
import subprocess
import sys
import time
from concurrent.futures import ThreadPoolExecutor

VERIF = os.path.dirname(os.path.dirname(os.path.abspath(__file__)))
REPO = os.environ.get('PDL_REPO', '/repo')
# an alternative repository root (used only to try seeded changes in scratch worktrees without
# touching /repo) gets its own build, work and output directories
_ALT = '' if REPO == '/repo' else 'alt_' + hashlib.sha1(REPO.encode()).hexdigest()[:8]
TARGET = os.path.join(VERIF, 'target', _ALT) if _ALT else os.path.join(VERIF, 'target')
WORK = os.path.join(VERIF, 'work', _ALT) if _ALT else os.path.join(VERIF, 'work')
OUT = os.path.join(VERIF, 'work', _ALT, 'out') if _ALT else VERIF

ENV = dict(os.environ, CARGO_NET_OFFLINE='true', CARGO_TERM_COLOR='never')


class BuildError(Exception):
    pass


def run(cmd, cwd=None, env=None, timeout=None, check=True, inp=None):
    p = subprocess.run(cmd, cwd=cwd, env=env or ENV, input=inp, capture_output=True, text=True, timeout=timeout)
    if check and p.returncode != 0:
        raise BuildError(f'{" ".join(cmd)} failed ({p.returncode}):\n{p.stdout[-3000:]}\n{p.stderr[-6000:]}')
    return p


_pdlc = None


def build_pdlc() -> str:
    """cargo build of the pdlc binary from /repo's working tree (cargo decides what is stale)"""
    global _pdlc
    if _pdlc:
        return _pdlc
    t = time.time()
    tdir = os.path.join(TARGET, 'repo')
    run(['cargo', 'build', '--offline', '--quiet', '--manifest-path', os.path.join(REPO, 'Cargo.toml'),
         '-p', 'pdl-compiler', '--bin', 'pdlc', '--target-dir', tdir], timeout=1800)
    _pdlc = os.path.join(tdir, 'debug', 'pdlc')
    if not os.path.exists(_pdlc):
        raise BuildError('pdlc binary missing after build')
    sys.stderr.write(f'[build] pdlc ready in {time.time() - t:.1f}s\n')
    return _pdlc


class PdlcReject(Exception):
    pass


def pdlc(text: str, fmt: str, extra=(), tag='d') -> str:
    """run the freshly built pdlc on a description text; returns generated code"""
    exe = build_pdlc()
    os.makedirs(os.path.join(WORK, 'pdl'), exist_ok=True)
    h = hashlib.sha1(text.encode()).hexdigest()[:16]
    path = os.path.join(WORK, 'pdl', f'{tag}_{h}.pdl')
    with open(path, 'w') as f:
        f.write(text)
    p = subprocess.run([exe, '--output-format', fmt, *extra, path], capture_output=True, text=True, timeout=120)
    if p.returncode != 0:
        raise PdlcReject(f'pdlc --output-format {fmt} failed on {path} ({p.returncode}):\n{p.stderr[-3000:]}')
    return p.stdout


def pdlc_many(jobs, workers=16):
    """jobs: list of (text, fmt, extra). returns list of outputs or exceptions"""
    build_pdlc()

    def one(j):
        try:
            return pdlc(*j)
        except Exception as e:  # noqa
            return e
    with ThreadPoolExecutor(workers) as ex:
        return list(ex.map(one, jobs))
