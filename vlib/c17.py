"""C17 — endianness duality.

Rust leg (E-KANI): for LE/BE twin descriptions the real encoder equals the reference encoder of
its endianness for every value in bound (the C03 harness on both twins) and the two reference
encoders satisfy the duality (z3 query over symbolic values); a counterexample is replayed by
encoding the same value natively under both generated modules and testing the duality directly.
Python leg (E-PYSYM): both generated modules serialize the same symbolic value; the duality is
one z3 query per path.  C++ leg: not decided."""
from __future__ import annotations

import copy
import os
import re
import time

import z3

from . import corpus, gen, kcheck, model as M, pycheck, pysym as S, venc
from .build import build_pdlc
from .common import Outcome, write_evidence, log
from .kcheck import KItem
from .ref import (Model, Chunk, ArraySeg, PayloadSeg, OptSeg, StructSeg, CustomSeg, ChecksumStart, ChecksumValue,
                  Unsupported)
from .rsreplay import NativeRunner

PROP = 'C17'
QUOTAS = {
    'quick': {'cheap': 1, 'medium': 1, 'heavy': 0, 'F1:cheap': 6, 'F2:medium': 4, 'F7:cheap': 2, 'R:cheap': 0, 'R:medium': 0},
    'thorough': {'cheap': 60, 'medium': 40, 'heavy': 4, 'F1:cheap': 200, 'F2:medium': 60, 'F7:cheap': 12},
}


# --------------------------------------------------------------------------- chunk map
def chunk_map(mdl: Model, name, vals):
    """[(octets, reversible)] of the encoding of `vals` as type `name`"""
    ch = mdl.chain(name)

    def level(i, payload_map):
        n = ch[i]
        out = []
        for seg in mdl.plans[n]:
            if isinstance(seg, Chunk):
                out.append((seg.nbytes, True))
            elif isinstance(seg, OptSeg):
                v = vals.get(seg.name) if i == len(ch) - 1 or seg.name in vals else None
                if v is None:
                    continue
                if seg.inner[0] == 'scalar':
                    out.append((seg.inner[1], True))
                elif seg.inner[0] == 'enum':
                    out.append((mdl.decls[seg.inner[1]].width // 8, True))
                else:
                    out.extend(chunk_map(mdl, seg.inner[1], v))
            elif isinstance(seg, StructSeg):
                out.extend(chunk_map(mdl, seg.decl, vals[seg.name]))
            elif isinstance(seg, CustomSeg):
                out.append((seg.nbytes, True))
            elif isinstance(seg, ChecksumValue):
                out.append((seg.nbytes, True))
            elif isinstance(seg, PayloadSeg):
                out.extend(payload_map)
            elif isinstance(seg, ArraySeg):
                used = 0
                for x in vals[seg.name]:
                    if seg.elem[0] == 'struct':
                        m = chunk_map(mdl, seg.elem[1], x)
                        out.extend(m)
                        used += sum(a for a, _ in m)
                    else:
                        out.append((seg.elem_static, True))
                        used += seg.elem_static
                if seg.padding is not None and seg.padding > used:
                    out.append((seg.padding - used, False))
        return out
    pm = [(len(vals['payload']), False)] if mdl.has_payload(name) else []
    for i in range(len(ch) - 1, -1, -1):
        pm = level(i, pm)
    return pm


def dual(bs, cmap):
    out, p = [], 0
    bs = list(bs)
    for n, rev in cmap:
        seg = bs[p:p + n]
        out.extend(reversed(seg) if rev else seg)
        p += n
    out.extend(bs[p:])
    return out


# --------------------------------------------------------------------------- python leg + reference duality
def pysym_leg(tier, seed, out: Outcome, py_descs, ref_descs):
    stats = {'python_types': 0, 'python_paths': 0, 'reference_types': 0, 'reference_paths': 0, 'queries': 0, 'samples': []}
    build_pdlc()
    # (a) reference duality on every description whose Rust pair is checked
    for d in ref_descs:
        mle, mbe = Model(d.file), Model(d.file.twin())
        for t in d.check_types():
            try:
                shapes = pycheck.shapes_for(lambda sh, t=t: pycheck.sym_value(mle, t, sh, 'v.'), 6)
            except Unsupported:
                continue
            stats['reference_types'] += 1
            for chs in shapes:
                def fn(c, chs=chs, t=t):
                    sh = pycheck.Shape(chs)
                    conds = []
                    vals = pycheck.sym_value(mle, t, sh, 'v.', assume=conds.append)
                    if mle.size_faults(t, vals):
                        return None
                    for cnd in conds:
                        c.assume(cnd.e if isinstance(cnd, S.SBool) else z3.BoolVal(bool(cnd)))
                    le, be = mle.encode(t, vals), mbe.encode(t, vals)
                    eq = S.seq_eq(be, dual(le, chunk_map(mle, t, vals)))
                    m = c.sat(z3.Not(eq.e) if isinstance(eq, S.SBool) else z3.BoolVal(not eq))
                    return None if m is None else pycheck._model_dict(m)
                for r in S.explore(fn):
                    stats['reference_paths'] += 1
                    stats['queries'] += r.queries
                    if r.status != 'done':
                        out.inconclusive_item(f'{d.id}/{t} reference duality: {r.status} {r.value}')
                    elif r.value is not None:
                        out.inconclusive_item(f'{d.id}/{t}: the REFERENCE encoders violate the duality (machinery defect): {r.value}')
    # (b) python backend, direct
    for d in py_descs:
        gle, gbe = gen.generate(d, 'python'), gen.generate(copy_twin(d), 'python')
        if not gle.units or not gbe.units or len(gle.units) != 1 or len(gbe.units) != 1:
            continue
        ule, ube = gle.units[0], gbe.units[0]
        mle, mbe = Model(ule.file), Model(ube.file)
        mod_le = S.load_module(ule.text, pycheck.custom_standins(mle))
        mod_be = S.load_module(ube.text, pycheck.custom_standins(mbe))
        try:
            for t in ule.types:
                from .pyrun import py_supported
                if not py_supported(mle, t):
                    continue
                stats['python_types'] += 1
                shapes = pycheck.shapes_for(lambda sh, t=t: pycheck.sym_value(mle, t, sh, 'v.'), 8 if tier == 'quick' else 24)
                for chs in shapes:
                    holder = {}

                    def fn(c, chs=chs, t=t):
                        sh = pycheck.Shape(chs)
                        conds = []
                        vals = pycheck.sym_value(mle, t, sh, 'v.', assume=conds.append)
                        if mle.size_faults(t, vals):
                            return None
                        for cnd in conds:
                            c.assume(cnd.e if isinstance(cnd, S.SBool) else z3.BoolVal(bool(cnd)))
                        a = pycheck.to_obj(mod_le, mle, t, vals).serialize()
                        b = pycheck.to_obj(mod_be, mbe, t, vals).serialize()
                        if len(a) != len(b):
                            return {'lengths': [len(a), len(b)], 'model': pycheck._model_dict(c.sat(True)), 'shape': chs}
                        eq = S.seq_eq(list(b), dual(list(a), chunk_map(mle, t, vals)))
                        m = c.sat(z3.Not(eq.e) if isinstance(eq, S.SBool) else z3.BoolVal(not eq))
                        return None if m is None else {'model': pycheck._model_dict(m), 'shape': chs}
                    for r in S.explore(fn):
                        stats['python_paths'] += 1
                        stats['queries'] += r.queries
                        if r.status != 'done':
                            out.inconclusive_item(f'{d.id}/{t} python duality: {r.status} {r.value}')
                        elif r.value is not None:
                            rec = {'property': PROP, 'engine': 'E-PYSYM', 'backend': 'python', 'desc': d.id, 'type': t,
                                   'kind': 'duality', 'detail': 'big-endian serialization is not the chunk-wise byte reversal of the little-endian one',
                                   'pdl': ule.pdl, 'model': r.value.get('model', {}), 'shape': r.value.get('shape'),
                                   'sig': {'backend': 'python', 'kind': 'duality'}}
                            ok = replay_python_duality(ule, ube, t, rec)
                            out.violation(rec['sig'], rec, reproduced=ok)
                if len(stats['samples']) < 4:
                    stats['samples'].append({'description': d.id, 'type': t, 'shapes': len(shapes)})
        finally:
            S.unload_module(mod_le)
            S.unload_module(mod_be)
    return stats


def copy_twin(d):
    t = copy.copy(d)
    t.file = d.file.twin()
    t.id = d.id[:-3] + ('_be' if d.id.endswith('_le') else '_le')
    return t


def replay_python_duality(ule, ube, t, rec) -> bool:
    mle, mbe = Model(ule.file), Model(ube.file)
    mod_le = S.load_module(ule.text, pycheck.custom_standins(mle, symbolic=False), symbolic=False)
    mod_be = S.load_module(ube.text, pycheck.custom_standins(mbe, symbolic=False), symbolic=False)
    try:
        model = rec.get('model', {})
        mk = lambda name, width: int(model.get(name, 0)) & ((1 << width) - 1)          # noqa: E731
        mkb = lambda prefix, n: bytes(int(model.get(f'{prefix}{i}', 0)) & 0xff for i in range(n))   # noqa: E731
        vals = pycheck.sym_value(mle, t, pycheck.Shape(rec.get('shape') or []), 'v.', mk=mk, mkbytes=mkb)
        a = pycheck.to_obj(mod_le, mle, t, vals, symbolic=False).serialize()
        b = pycheck.to_obj(mod_be, mbe, t, vals, symbolic=False).serialize()
        rec['native'] = {'le': bytes(a).hex(), 'be': bytes(b).hex()}
        return list(b) != dual(list(a), chunk_map(mle, t, vals))
    except Exception as e:  # noqa
        rec['native'] = {'error': repr(e)}
        return False
    finally:
        S.unload_module(mod_le)
        S.unload_module(mod_be)


# --------------------------------------------------------------------------- rust leg
def main(tier, seed):
    os.environ['VERIF_TIER_EFF'] = tier
    t0 = time.time()
    out = Outcome(PROP)
    # pairs: select on the LE twin, then add the BE twin of every selected item
    items, info = kcheck.gather(tier, seed, lambda mdl, u, t, d: ['c03'] if d.id.endswith('_le') else [], QUOTAS[tier],
                                out=out)
    items = [it for it in items if it.unit.desc_id.split('#')[0].endswith('_le')]
    if tier == 'quick':
        items = [it for it in items if it.cls != 'heavy'][:32]
    by_id = {d.id: d for d in corpus.corpus(tier, seed, backend='rust')}
    twins = []
    twin_of = {}
    for it in items:
        base = it.unit.desc_id.split('#')[0]
        tw = by_id.get(base[:-3] + '_be')
        if tw is None:
            continue
        g = gen.generate(tw, 'rust')
        for u in g.units:
            if it.type in u.types:
                ti = KItem(u, Model(u.file), it.type, 'c03', it.L, it.cls, it.family)
                twins.append(ti)
                twin_of[it.key] = ti
                twin_of[ti.key] = it
    allitems = items + twins
    for it in allitems:
        it.K = 2
    log(f'[C17] rust leg: {len(items)} LE/BE pairs')

    def replay(runner: NativeRunner, it: KItem, words):
        tw = twin_of.get(it.key)
        if tw is None:
            return False, {'error': 'no twin'}
        exp = venc.expected(it, words)
        if not exp.get('drawn') or not exp.get('buildable') or exp.get('faults'):
            return False, {'note': 'value outside the harness domain', 'expected': exp}
        le_it, be_it = (it, tw) if it.unit.desc_id.split('#')[0].endswith('_le') else (tw, it)
        same_mod = [x for x in allitems if x.mod == tw.mod]
        r2 = NativeRunner(tw.unit.text, sorted({x.type for x in same_mod}), '', venc.value_arms(same_mod), venc.rf_text(same_mod))
        obs, bad = {'expected': exp}, False
        try:
            for profile in ('dev', 'release'):
                a = runner.run(profile, it.type, 'enc', b'', words)
                b = r2.run(profile, it.type, 'enc', b'', words)
                obs[profile] = {it.mod: a[:200], tw.mod: b[:200]}
                ma, mb = re.match(r'OK (\S+) ', a), re.match(r'OK (\S+) ', b)
                if not ma or not mb:
                    bad = bad or (a.startswith(('ERR', 'PANIC')) != b.startswith(('ERR', 'PANIC')))
                    continue
                xa = bytes.fromhex('' if ma.group(1) == '-' else ma.group(1))
                xb = bytes.fromhex('' if mb.group(1) == '-' else mb.group(1))
                le_b, be_b = (xa, xb) if le_it is it else (xb, xa)
                rr = __import__('vlib.harness', fromlist=['x']).HarnessGen(le_it.mdl, le_it.L, le_it.K).rr
                vals, _ = rr.value_from_words(it.type, words, it.K, it.K)
                if list(be_b) != dual(list(le_b), chunk_map(le_it.mdl, it.type, vals)):
                    bad = True
        finally:
            r2.cleanup()
        return bad, obs
    cov = kcheck.run_and_judge(PROP, tier, seed, allitems, info, out, replay, venc.value_arms, own_prefixes=('C03:',),
                               extract=venc.extract_words, inner_fn=venc.rf_text)
    ref_descs = [by_id[b] for b in sorted({it.unit.desc_id.split('#')[0] for it in items}) if b in by_id]
    py_all = [d for d in corpus.corpus(tier, seed, backend='python') if d.id.endswith('_le') and d.family != 'R']
    if tier == 'quick':
        import random
        rnd = random.Random(seed)
        core = [d for d in py_all if d.core]
        rest = [d for d in py_all if not d.core]
        py_all = core + rnd.sample(rest, min(40, len(rest)))
    py = pysym_leg(tier, seed, out, py_all, ref_descs)
    cov['pysym'] = py
    cov['pairs'] = len(items)
    cov['functions_encoded'] = ['<T>::encode for the LE and the BE module of each pair (generated Rust)',
                                'python <T>.serialize of both generated modules', 'reference encoders of both endiannesses']
    cov['not_decided'] = 'C++ leg'
    cov['evaluations'] = cov['evaluations'] + py['python_paths'] + py['reference_paths']
    cov['distinct_nontrivial'] = cov['distinct_nontrivial'] + py['python_types']
    write_evidence(PROP, tier, seed, 'model_checking', cov,
                   ['Rust: duality follows from encoder == reference encoder on both twins plus the duality of the two reference '
                    'encoders, all within the same value bound; counterexamples are confirmed by testing the duality on the two '
                    'native encoders directly', 'chunk map printed from our layout plan'],
                   time.time() - t0, len(out.violations))
    return out.finish()
