"""Reference model of the PDL wire format, written from doc/reference.md.

Shares no code with pdlc.  A `Model` resolves a `model.File` (inlines groups,
finds flags, builds one *layout plan* per packet/struct) and interprets the plan:

    decode(name, b)      -> value dict, or raises Reject(fault)
    encode(name, value)  -> list of byte values
    faults(name, value)  -> list of well-formedness faults of a value (C05)

The interpreter is plain Python over "byte sequences" and "integers" that may be
concrete (bytes/int) or the symbolic proxies of vlib.pysym (SBytes/SInt): it only
uses indexing, slicing, len, + - * << >> & | and comparisons, so reference and
implementation meet in one solver query.  `vlib.rustref` prints the same plans
as heap-free Rust for the Kani harnesses.

Bit-field groups close at the FIRST byte boundary (doc/reference.md: "grouped
together to the next byte boundary").
"""
from __future__ import annotations

import functools
import operator
from dataclasses import dataclass, field as dfield
from typing import Dict, List, Optional, Tuple

from . import model as M


class Reject(Exception):
    """The reference semantics reject the input; `fault` names why."""

    def __init__(self, fault, detail='', site=''):
        super().__init__(f'{fault} {detail}')
        self.fault = fault
        self.detail = detail
        self.site = site or fault


class Unsupported(Exception):
    pass


# --------------------------------------------------------------------------- plan
@dataclass
class Item:           # one bit-field inside a chunk
    kind: str         # scalar enum fixed_scalar fixed_enum reserved size count elemsize flag
    shift: int
    width: int
    name: Optional[str] = None      # field id (scalar/enum/flag)
    enum: Optional[str] = None      # enum decl name
    value: Optional[int] = None     # fixed value
    target: Optional[str] = None    # size/count/elemsize target
    opts: List[Tuple[str, int]] = dfield(default_factory=list)  # flag: [(optional field id, cond value)]


@dataclass
class Chunk:
    nbytes: int
    items: List[Item]


@dataclass
class ArraySeg:
    name: str
    elem: Tuple            # ('scalar', nbytes) ('enum', decl) ('struct', decl) ('custom', decl)
    shape: Tuple           # ('static', n) ('count',) ('size', modifier) ('rest',)
    padding: Optional[int]  # octets
    has_elemsize: bool
    elem_static: Optional[int]  # static element size in octets, if any


@dataclass
class PayloadSeg:
    sized: bool
    modifier: int
    trailing: Optional[int]   # octets of static fields after the payload (None: not static)


@dataclass
class OptSeg:
    name: str
    flag: str
    condval: int
    inner: Tuple           # ('scalar', nbytes) ('enum', decl) ('struct', decl)


@dataclass
class StructSeg:
    name: str
    decl: str


@dataclass
class CustomSeg:
    name: str
    decl: str
    nbytes: Optional[int]


@dataclass
class ChecksumStart:
    target: str


@dataclass
class ChecksumValue:
    name: str
    decl: str
    nbytes: int


def _or(conds):
    conds = list(conds)
    if not conds:
        return False
    return functools.reduce(operator.or_, conds)


def _and(conds):
    conds = list(conds)
    if not conds:
        return True
    return functools.reduce(operator.and_, conds)


class Model:
    def __init__(self, f: M.File):
        self.file = f
        self.endian = f.endianness
        self.decls: Dict[str, M.Decl] = {d.name: d for d in f.decls if d.kind != 'test'}
        self.fields: Dict[str, List[M.Field]] = {}
        self.plans: Dict[str, list] = {}
        for d in f.decls:
            if d.kind in ('packet', 'struct'):
                self.fields[d.name] = self._inline(d.fields, {})
        for name in self.fields:
            self.plans[name] = self._plan(name)

    # ---- resolution
    def _inline(self, fields, cons):
        out = []
        for f in fields:
            if f.kind == 'group':
                g = self.decls[f.type_id]
                c2 = dict(cons)
                c2.update(dict(f.constraints))
                out.extend(self._inline(g.fields, c2))
            elif f.kind == 'scalar' and f.name in cons and f.cond is None:
                out.append(M.fixed(cons[f.name], f.width))
            elif f.kind == 'typedef' and f.name in cons and f.cond is None:
                out.append(M.fixed_enum(cons[f.name], f.type_id))
            else:
                out.append(f)
        return out

    def kind_of(self, type_id):
        return self.decls[type_id].kind

    def chain(self, name) -> List[str]:
        """[root, ..., name]"""
        out = [name]
        while self.decls[out[0]].parent:
            out.insert(0, self.decls[out[0]].parent)
        return out

    def children(self, name):
        return [d.name for d in self.file.decls if d.parent == name and d.kind in ('packet', 'struct')]

    def descendants(self, name):
        out = []
        for c in self.children(name):
            out.append(c)
            out.extend(self.descendants(c))
        return out

    def has_payload(self, name):
        return any(f.kind in ('payload', 'body') for f in self.fields[name])

    def all_constraints(self, name) -> Dict[str, object]:
        """constraints along the chain; the most derived declaration wins"""
        cs = {}
        for n in self.chain(name):
            for k, v in self.decls[n].constraints:
                cs[k] = v
        return cs

    def flags(self, name) -> Dict[str, List[Tuple[str, int]]]:
        fl = {}
        for f in self.fields[name]:
            if f.cond is not None:
                fl.setdefault(f.cond[0], []).append((f.name, f.cond[1]))
        return fl

    def named_field(self, name, fid) -> Optional[M.Field]:
        for n in self.chain(name):
            for f in self.fields[n]:
                if f.name == fid:
                    return f
        return None

    def data_fields(self, name) -> List[Tuple[str, M.Field]]:
        """(declaring decl, field) for every field that appears as data in a
        value of `name`: named, not a flag, not constrained along the chain."""
        cs = self.all_constraints(name)
        out = []
        for n in self.chain(name):
            fl = self.flags(n)
            for f in self.fields[n]:
                if f.name is None or f.kind not in ('scalar', 'typedef', 'array'):
                    continue
                if f.name in fl or f.name in cs:
                    continue
                out.append((n, f))
        return out

    def enum_tag_value(self, enum_name, tag):
        for t in self.decls[enum_name].tags:
            if isinstance(t, M.TagValue) and t.name == tag:
                return t.value
            if isinstance(t, M.TagRange):
                for x in t.tags:
                    if x.name == tag:
                        return x.value
        raise KeyError((enum_name, tag))

    def constraint_value(self, name, fid, v):
        if isinstance(v, int):
            return v
        f = self.named_field(name, fid)
        return self.enum_tag_value(f.type_id, v)

    def enum_is_open(self, enum_name):
        return any(isinstance(t, M.TagOther) for t in self.decls[enum_name].tags)

    def enum_member(self, enum_name, v):
        """membership predicate of the declared value set (tags and ranges)"""
        conds = []
        for t in self.decls[enum_name].tags:
            if isinstance(t, M.TagValue):
                conds.append(v == t.value)
            elif isinstance(t, M.TagRange):
                conds.append((v >= t.lo) & (v <= t.hi))
        return _or(conds)

    def enum_valid(self, enum_name, v):
        if self.enum_is_open(enum_name):
            return True
        return self.enum_member(enum_name, v)

    # ---- static sizes (octets) of our own model, None if not static
    def static_size(self, name, _seen=()) -> Optional[int]:
        d = self.decls[name]
        if d.kind in ('enum', 'custom_field', 'checksum'):
            return None if d.width is None else d.width // 8 if d.width % 8 == 0 else None
        if name in _seen:
            return None
        total = 0
        for n in self.chain(name):
            s = self._own_static_bits(n, _seen + (name,), count_payload=(n == name))
            if s is None:
                return None
            total += s
        return total // 8

    def _own_static_bits(self, name, seen, count_payload=True):
        bits = 0
        fs = self.fields[name]
        for i, f in enumerate(fs):
            if f.cond is not None:
                return None
            k = f.kind
            if k in ('scalar', 'size', 'count', 'elemsize', 'reserved', 'fixed_scalar'):
                bits += f.width
            elif k == 'fixed_enum':
                bits += self.decls[f.type_id].width
            elif k == 'typedef':
                td = self.decls[f.type_id]
                if td.kind in ('enum', 'checksum'):
                    bits += td.width
                else:
                    s = self.static_size(f.type_id, seen)
                    if s is None:
                        return None
                    bits += 8 * s
            elif k == 'array':
                nxt = fs[i + 1] if i + 1 < len(fs) else None
                if nxt is not None and nxt.kind == 'padding':
                    bits += 8 * nxt.value
                    continue
                if f.count is None:
                    return None
                if f.width is not None:
                    bits += f.count * f.width
                else:
                    s = self.static_size(f.type_id, seen)
                    if s is None:
                        return None
                    bits += 8 * s * f.count
            elif k in ('payload', 'body'):
                if count_payload:
                    return None
            elif k in ('padding', 'checksum_start'):
                pass
            else:
                raise Unsupported(k)
        return bits

    # ---- plan
    def _plan(self, name):
        fs = self.fields[name]
        flags = self.flags(name)
        segs, items, shift = [], [], 0

        def bit(it_kind, width, **kw):
            nonlocal shift, items
            items.append(Item(it_kind, shift, width, **kw))
            shift += width
            if shift % 8 == 0:
                segs.append(Chunk(shift // 8, items))
                items, shift = [], 0

        for i, f in enumerate(fs):
            k = f.kind
            if f.cond is not None:
                assert shift == 0, (name, 'optional field not on byte boundary')
                if k == 'scalar':
                    inner = ('scalar', f.width // 8)
                else:
                    td = self.decls[f.type_id]
                    inner = ('enum', f.type_id) if td.kind == 'enum' else ('struct', f.type_id)
                segs.append(OptSeg(f.name, f.cond[0], f.cond[1], inner))
            elif k == 'scalar':
                if f.name in flags:
                    bit('flag', f.width, name=f.name, opts=flags[f.name])
                else:
                    bit('scalar', f.width, name=f.name)
            elif k in ('size', 'count', 'elemsize'):
                bit(k, f.width, target=f.target)
            elif k == 'reserved':
                bit('reserved', f.width)
            elif k == 'fixed_scalar':
                bit('fixed_scalar', f.width, value=f.value)
            elif k == 'fixed_enum':
                bit('fixed_enum', self.decls[f.type_id].width, enum=f.type_id,
                    value=self.enum_tag_value(f.type_id, f.tag))
            elif k == 'typedef' and self.decls[f.type_id].kind == 'enum':
                bit('enum', self.decls[f.type_id].width, name=f.name, enum=f.type_id)
            else:
                assert shift == 0, (name, k, 'not on byte boundary')
                if k == 'typedef':
                    td = self.decls[f.type_id]
                    if td.kind == 'struct':
                        segs.append(StructSeg(f.name, f.type_id))
                    elif td.kind == 'custom_field':
                        segs.append(CustomSeg(f.name, f.type_id, None if td.width is None else td.width // 8))
                    elif td.kind == 'checksum':
                        segs.append(ChecksumValue(f.name, f.type_id, td.width // 8))
                    else:
                        raise Unsupported(td.kind)
                elif k == 'array':
                    nxt = fs[i + 1] if i + 1 < len(fs) else None
                    pad = nxt.value if nxt is not None and nxt.kind == 'padding' else None
                    if f.width is not None:
                        elem, est = ('scalar', f.width // 8), f.width // 8
                    else:
                        td = self.decls[f.type_id]
                        if td.kind == 'enum':
                            elem, est = ('enum', f.type_id), td.width // 8
                        elif td.kind == 'struct':
                            elem, est = ('struct', f.type_id), self.static_size(f.type_id)
                        elif td.kind == 'custom_field':
                            elem, est = ('custom', f.type_id), None if td.width is None else td.width // 8
                        else:
                            raise Unsupported(td.kind)
                    if f.count is not None:
                        shape = ('static', f.count)
                    elif any(g.kind == 'count' and g.target == f.name for g in fs):
                        shape = ('count',)
                    elif any(g.kind == 'size' and g.target == f.name for g in fs):
                        shape = ('size', f.modifier or 0)
                    else:
                        shape = ('rest',)
                    has_es = any(g.kind == 'elemsize' and g.target == f.name for g in fs)
                    segs.append(ArraySeg(f.name, elem, shape, pad, has_es, est))
                elif k in ('payload', 'body'):
                    tgt = '_payload_' if k == 'payload' else '_body_'
                    sized = any(g.kind == 'size' and g.target == tgt for g in fs)
                    trailing = self._trailing_static(name, fs[i + 1:])
                    segs.append(PayloadSeg(sized, f.modifier or 0, trailing))
                elif k == 'padding':
                    pass
                elif k == 'checksum_start':
                    segs.append(ChecksumStart(f.target))
                else:
                    raise Unsupported(k)
        assert shift == 0, (name, 'declaration does not end on a byte boundary')
        return segs

    def _trailing_static(self, name, rest):
        bits = 0
        for i, f in enumerate(rest):
            if f.cond is not None:
                return None
            k = f.kind
            if k in ('scalar', 'size', 'count', 'elemsize', 'reserved', 'fixed_scalar'):
                bits += f.width
            elif k == 'fixed_enum':
                bits += self.decls[f.type_id].width
            elif k == 'typedef':
                td = self.decls[f.type_id]
                if td.kind in ('enum', 'checksum'):
                    bits += td.width
                elif td.kind == 'custom_field':
                    if td.width is None:
                        return None
                    bits += td.width
                else:
                    s = self.static_size(f.type_id)
                    if s is None:
                        return None
                    bits += 8 * s
            elif k == 'array':
                nxt = rest[i + 1] if i + 1 < len(rest) else None
                if nxt is not None and nxt.kind == 'padding':
                    bits += 8 * nxt.value
                elif f.count is None:
                    return None
                elif f.width is not None:
                    bits += f.count * f.width
                else:
                    s = self.static_size(f.type_id)
                    if s is None:
                        return None
                    bits += 8 * s * f.count
            elif k in ('padding', 'checksum_start'):
                pass
            else:
                return None
        return bits // 8

    # ------------------------------------------------------------------ decode
    def _uint(self, bs):
        """integer value of a byte sequence in file byte order"""
        n = len(bs)
        v = 0
        for i in range(n):
            b = bs[i]
            sh = 8 * i if self.endian == 'little' else 8 * (n - 1 - i)
            v = v | (b << sh) if sh else v | b
        return v

    def _bytes_of(self, v, n):
        out = [(v >> (8 * i)) & 0xff for i in range(n)]
        if self.endian == 'big':
            out.reverse()
        return out

    def decode_fields(self, name, buf, custom=None):
        """decode the declaration's own fields from `buf`; returns (values, rest).
        values: named fields, 'payload' (sequence of bytes) if declared."""
        vals = {}
        env = {}   # size/count/elemsize/flag values
        for seg in self.plans[name]:
            if isinstance(seg, Chunk):
                if len(buf) < seg.nbytes:
                    raise Reject('length', f'{name} chunk')
                raw = self._uint(buf[:seg.nbytes])
                buf = buf[seg.nbytes:]
                for it in seg.items:
                    v = (raw >> it.shift) & ((1 << it.width) - 1)
                    if it.kind == 'scalar':
                        vals[it.name] = v
                    elif it.kind == 'enum':
                        if not self.enum_valid(it.enum, v):
                            self._fault('enum', f'{name}.{it.name}')
                        vals[it.name] = v
                    elif it.kind in ('fixed_scalar', 'fixed_enum'):
                        if v != it.value:
                            self._fault('fixed', name)
                    elif it.kind == 'flag':
                        env['flag:' + it.name] = v
                    elif it.kind in ('size', 'count', 'elemsize'):
                        env[it.kind + ':' + it.target] = v
            elif isinstance(seg, OptSeg):
                if env['flag:' + seg.flag] == seg.condval:
                    if seg.inner[0] in ('scalar', 'enum'):
                        n = seg.inner[1] if seg.inner[0] == 'scalar' else self.decls[seg.inner[1]].width // 8
                        if len(buf) < n:
                            raise Reject('length', f'{name}.{seg.name}')
                        v = self._uint(buf[:n])
                        buf = buf[n:]
                        if seg.inner[0] == 'enum' and not self.enum_valid(seg.inner[1], v):
                            self._fault('enum', f'{name}.{seg.name}')
                        vals[seg.name] = v
                    else:
                        vals[seg.name], buf = self.decode_any(seg.inner[1], buf)
                else:
                    vals[seg.name] = None
            elif isinstance(seg, StructSeg):
                vals[seg.name], buf = self.decode_any(seg.decl, buf)
            elif isinstance(seg, CustomSeg):
                if seg.nbytes is None:
                    raise Unsupported('unsized custom field')
                if len(buf) < seg.nbytes:
                    raise Reject('length', f'{name}.{seg.name}')
                vals[seg.name] = self._uint(buf[:seg.nbytes])
                buf = buf[seg.nbytes:]
            elif isinstance(seg, PayloadSeg):
                if seg.sized:
                    tgt = 'size:_payload_' if 'size:_payload_' in env else 'size:_body_'
                    sz = env[tgt]
                    if seg.modifier:
                        if sz < seg.modifier:
                            raise Reject('length', f'{name} payload size below modifier', 'payload_modifier')
                        sz = sz - seg.modifier
                    if len(buf) < sz:
                        raise Reject('length', f'{name} payload')
                    sz = _concrete(sz)
                    vals['payload'] = buf[:sz]
                    buf = buf[sz:]
                else:
                    if seg.trailing is None:
                        raise Unsupported('payload followed by dynamic fields')
                    if len(buf) < seg.trailing:
                        raise Reject('length', f'{name} payload trailing')
                    n = len(buf) - seg.trailing
                    vals['payload'] = buf[:n]
                    buf = buf[n:]
            elif isinstance(seg, ArraySeg):
                vals[seg.name], buf = self._decode_array(name, seg, env, buf)
            elif isinstance(seg, ChecksumStart):
                env['cs_start:' + seg.target] = buf
            elif isinstance(seg, ChecksumValue):
                start = env.get('cs_start:' + seg.name)
                if start is None:
                    raise Unsupported('checksum value before its start')
                if len(buf) < seg.nbytes:
                    raise Reject('length', f'{name}.{seg.name}')
                covered = start[:len(start) - len(buf)]
                v = self._uint(buf[:seg.nbytes])
                buf = buf[seg.nbytes:]
                if v != self.checksum(seg.decl, covered):
                    self._fault('checksum', f'{name}.{seg.name}')
                vals[seg.name] = v
            else:
                raise Unsupported(type(seg).__name__)
        return vals, buf

    def checksum(self, decl, data):
        """the stand-in checksum function (user code): sum of the octets modulo 2^width"""
        w = self.decls[decl].width
        total = 0
        for x in data:
            total = total + x
        return total % (1 << w)

    def _decode_elem(self, name, seg, buf):
        kind = seg.elem[0]
        if kind in ('scalar', 'enum', 'custom'):
            n = seg.elem_static
            if n is None:
                raise Unsupported('unsized custom element')
            if len(buf) < n:
                raise Reject('length', f'{name}.{seg.name} element')
            v = self._uint(buf[:n])
            if kind == 'enum' and not self.enum_valid(seg.elem[1], v):
                self._fault('enum', f'{name}.{seg.name}')
            return v, buf[n:]
        return self.decode_any(seg.elem[1], buf)

    def _decode_array(self, name, seg, env, buf):
        tail = None
        if seg.padding is not None:
            if len(buf) < seg.padding:
                raise Reject('length', f'{name}.{seg.name} padding')
            buf, tail = buf[:seg.padding], buf[seg.padding:]
        out = []
        es = None
        if seg.has_elemsize:
            es = env['elemsize:' + seg.name]
        shape = seg.shape[0]
        if es is not None:
            # every element occupies exactly `es` octets
            if shape == 'static':
                cnt = seg.shape[1]
            elif shape == 'count':
                cnt = env['count:' + seg.name]
            else:
                total = env['size:' + seg.name] if shape == 'size' else len(buf)
                if shape == 'size':
                    if len(buf) < total:
                        raise Reject('length', f'{name}.{seg.name}')
                if es == 0:
                    if total != 0:
                        raise Reject('array_size', 'element size 0', 'elemsize_zero')
                    cnt = 0
                else:
                    if total % es != 0:
                        raise Reject('array_size', f'{name}.{seg.name}')
                    cnt = total // es
            if len(buf) < cnt * es:
                raise Reject('length', f'{name}.{seg.name}')
            cnt, es = _concrete(cnt), _concrete(es)
            for i in range(cnt):
                chunk = buf[i * es:(i + 1) * es]
                v, rest = self._decode_elem(name, seg, chunk)
                if len(rest) != 0:
                    raise Reject('trailing_in_array', f'{name}.{seg.name}')
                out.append(v)
            buf = buf[cnt * es:]
        elif shape in ('static', 'count'):
            cnt = seg.shape[1] if shape == 'static' else env['count:' + seg.name]
            if seg.elem_static is not None:
                if len(buf) < cnt * seg.elem_static:
                    raise Reject('length', f'{name}.{seg.name}')
            else:
                # cannot hold more elements than octets unless elements may be empty
                pass
            cnt = _concrete_count(cnt, len(buf), seg, self)
            for _ in range(cnt):
                v, buf = self._decode_elem(name, seg, buf)
                out.append(v)
        else:
            if shape == 'size':
                sz = env['size:' + seg.name]
                mod = seg.shape[1]
                if mod:
                    if sz < mod:
                        raise Reject('length', f'{name}.{seg.name} size below modifier', 'array_modifier')
                    sz = sz - mod
                if len(buf) < sz:
                    raise Reject('length', f'{name}.{seg.name}')
                sz = _concrete(sz)
                window, after = buf[:sz], buf[sz:]
            else:
                window, after = buf, buf[len(buf):]
            if seg.elem_static is not None:
                if len(window) % seg.elem_static != 0:
                    raise Reject('array_size', f'{name}.{seg.name}')
                for _ in range(len(window) // seg.elem_static):
                    v, window = self._decode_elem(name, seg, window)
                    out.append(v)
            else:
                guard = len(window) + 1
                while len(window) > 0:
                    before = len(window)
                    v, window = self._decode_elem(name, seg, window)
                    out.append(v)
                    guard -= 1
                    if len(window) == before and guard <= 0:
                        raise Unsupported('zero-size element in unbounded array')
            buf = after
        if tail is not None:
            buf = tail
        return out, buf

    def decode_any(self, name, buf):
        """decode a value of `name` (root or derived) from the front of buf."""
        ch = self.chain(name)
        vals, rest = self.decode_fields(ch[0], buf)
        cur = vals
        for n in ch[1:]:
            for k, v in self.decls[n].constraints:
                if cur[k] != self.constraint_value(n, k, v):
                    self._fault('constraint', f'{n}.{k}')
            if 'payload' in cur:
                sub, r2 = self.decode_fields(n, cur['payload'])
                if len(r2) != 0:
                    self._fault('trailing', n)
                cur = {k: v for k, v in cur.items() if k != 'payload'}
                cur.update(sub)
            else:
                cur = dict(cur)
        return cur, rest

    def decode(self, name, b):
        """decode_full: the whole of b must be one value of `name`."""
        vals, rest = self.decode_any(name, b)
        if len(rest) != 0:
            self._fault('trailing', name)
        return vals

    lenient = False

    def _fault(self, fault, detail='', site=''):
        """faults after which the structure is still known are only recorded in lenient mode"""
        if self.lenient:
            self.soft.append(fault)
            return
        raise Reject(fault, detail, site)

    def decode_lenient(self, name, b, full=True):
        """(accepted, value or None, consumed or None, [faults in order])"""
        self.lenient, self.soft = True, []
        try:
            if full:
                v = self.decode(name, b)
                used = len(b)
            else:
                v, rest = self.decode_any(name, b)
                used = len(b) - len(rest)
            faults = list(self.soft)
            return (not faults, v if not faults else None, used, faults)
        except Reject as r:
            return (False, None, None, list(self.soft) + [r.fault])
        finally:
            self.lenient = False

    # ------------------------------------------------------------------ encode
    def encode_fields(self, name, vals, payload=None):
        """bytes of the declaration's own fields. `payload`: byte list replacing
        vals['payload'] (child encoding)."""
        out = []
        cs_start = 0
        plan = self.plans[name]
        if payload is None:
            payload = vals.get('payload', [])
        # pre-encode variable parts so that size fields can be computed
        enc = {}
        for seg in plan:
            if isinstance(seg, ArraySeg):
                enc[seg.name] = [self._encode_elem(seg, v) for v in vals[seg.name]]
        for seg in plan:
            if isinstance(seg, Chunk):
                raw = 0
                for it in seg.items:
                    if it.kind in ('scalar', 'enum'):
                        v = vals[it.name]
                    elif it.kind in ('fixed_scalar', 'fixed_enum'):
                        v = it.value
                    elif it.kind == 'reserved':
                        continue
                    elif it.kind == 'flag':
                        fid, cv = it.opts[0]
                        v = cv if vals[fid] is not None else 1 - cv
                    elif it.kind == 'size':
                        if it.target in ('_payload_', '_body_'):
                            pseg = [s for s in plan if isinstance(s, PayloadSeg)][0]
                            v = len(payload) + pseg.modifier
                        else:
                            aseg = [s for s in plan if isinstance(s, ArraySeg) and s.name == it.target][0]
                            v = sum(len(e) for e in enc[it.target]) + (aseg.shape[1] if aseg.shape[0] == 'size' else 0)
                    elif it.kind == 'count':
                        v = len(vals[it.target])
                    elif it.kind == 'elemsize':
                        v = len(enc[it.target][0]) if enc[it.target] else 0
                    else:
                        raise Unsupported(it.kind)
                    raw = raw | (v << it.shift) if it.shift else raw | v
                out.extend(self._bytes_of(raw, seg.nbytes))
            elif isinstance(seg, OptSeg):
                v = vals[seg.name]
                if v is not None:
                    if seg.inner[0] == 'scalar':
                        out.extend(self._bytes_of(v, seg.inner[1]))
                    elif seg.inner[0] == 'enum':
                        out.extend(self._bytes_of(v, self.decls[seg.inner[1]].width // 8))
                    else:
                        out.extend(self.encode(seg.inner[1], v))
            elif isinstance(seg, StructSeg):
                out.extend(self.encode(seg.decl, vals[seg.name]))
            elif isinstance(seg, CustomSeg):
                out.extend(self._bytes_of(vals[seg.name], seg.nbytes))
            elif isinstance(seg, PayloadSeg):
                out.extend(list(payload))
            elif isinstance(seg, ArraySeg):
                n = 0
                for e in enc[seg.name]:
                    out.extend(e)
                    n += len(e)
                if seg.padding is not None:
                    out.extend([0] * max(0, seg.padding - n))
            elif isinstance(seg, ChecksumStart):
                cs_start = len(out)
            elif isinstance(seg, ChecksumValue):
                out.extend(self._bytes_of(self.checksum(seg.decl, out[cs_start:]), seg.nbytes))
            else:
                raise Unsupported(type(seg).__name__)
        return out

    def _encode_elem(self, seg, v):
        kind = seg.elem[0]
        if kind in ('scalar', 'enum', 'custom'):
            return self._bytes_of(v, seg.elem_static)
        return self.encode(seg.elem[1], v)

    def encode(self, name, vals):
        ch = self.chain(name)
        cs = self.all_constraints(name)
        full = dict(vals)
        for k, v in cs.items():
            full[k] = self.constraint_value(name, k, v)
        payload = None
        for n in reversed(ch):
            payload = self.encode_fields(n, full, payload)
        return payload

    # ------------------------------------------------------------------ helpers for checks
    def canon(self, name, b):
        """b with reserved bits and padding cleared == encode(decode(b))"""
        return self.encode(name, self.decode(name, b))


def _concrete(v):
    """a concrete python int from a possibly symbolic integer (forks in pysym)"""
    if isinstance(v, int):
        return v
    return v.__index__()


def _concrete_count(cnt, avail, seg, model):
    if isinstance(cnt, int):
        return cnt
    return cnt.__index__()


# ------------------------------------------------------------------ size helpers (added to Model)
def _min_len(self, name, _depth=0) -> int:
    """smallest number of octets an accepted encoding of `name` can have"""
    if _depth > 8:
        return 0
    total = 0
    ch = self.chain(name)
    for n in ch:
        for seg in self.plans[n]:
            if isinstance(seg, Chunk):
                total += seg.nbytes
            elif isinstance(seg, StructSeg):
                total += self.min_len(seg.decl, _depth + 1)
            elif isinstance(seg, CustomSeg):
                total += seg.nbytes or 0
            elif isinstance(seg, ArraySeg):
                if seg.padding is not None:
                    total += seg.padding
                elif seg.shape[0] == 'static':
                    e = seg.elem_static
                    if e is None and seg.elem[0] == 'struct':
                        e = self.min_len(seg.elem[1], _depth + 1)
                    total += (e or 0) * seg.shape[1]
            elif isinstance(seg, ChecksumValue):
                total += seg.nbytes
    return total


def _size_faults(self, name, vals):
    """faults of a value that depend only on lengths: size/count/element-size fields that
    cannot express the value, arrays larger than their padding, static arrays of the wrong
    length.  Lengths are concrete even when element values are symbolic."""
    out = []
    ch = self.chain(name)
    payload_len = len(vals.get('payload', [])) if self.has_payload(name) else 0
    for n in reversed(ch):
        plan = self.plans[n]
        enc = {}
        for seg in plan:
            if isinstance(seg, ArraySeg):
                enc[seg.name] = [self._encode_elem(seg, v) for v in vals[seg.name]]
                for v in vals[seg.name]:
                    if seg.elem[0] == 'struct':
                        out.extend(self.size_faults(seg.elem[1], v))
                if seg.shape[0] == 'static' and len(vals[seg.name]) != seg.shape[1]:
                    out.append(('static_count', n, seg.name))
                tot = sum(len(e) for e in enc[seg.name])
                if seg.padding is not None and tot > seg.padding:
                    out.append(('padding', n, seg.name))
                if seg.has_elemsize and any(len(e) != len(enc[seg.name][0]) for e in enc[seg.name]):
                    out.append(('elemsize_mismatch', n, seg.name))
            elif isinstance(seg, StructSeg):
                out.extend(self.size_faults(seg.decl, vals[seg.name]))
            elif isinstance(seg, OptSeg) and seg.inner[0] == 'struct' and vals[seg.name] is not None:
                out.extend(self.size_faults(seg.inner[1], vals[seg.name]))
        own = 0
        for seg in plan:
            if isinstance(seg, Chunk):
                own += seg.nbytes
                for it in seg.items:
                    mx = (1 << it.width) - 1
                    if it.kind == 'size':
                        if it.target in ('_payload_', '_body_'):
                            pseg = [s for s in plan if isinstance(s, PayloadSeg)][0]
                            v = payload_len + pseg.modifier
                        else:
                            aseg = [s for s in plan if isinstance(s, ArraySeg) and s.name == it.target][0]
                            v = sum(len(e) for e in enc[it.target]) + (aseg.shape[1] if aseg.shape[0] == 'size' else 0)
                        if v > mx:
                            out.append(('size', n, it.target))
                    elif it.kind == 'count' and len(vals[it.target]) > mx:
                        out.append(('count', n, it.target))
                    elif it.kind == 'elemsize' and enc[it.target] and len(enc[it.target][0]) > mx:
                        out.append(('elemsize', n, it.target))
                    elif it.kind == 'flag':
                        want = set()
                        for fid, cv in it.opts:
                            want.add(cv if vals[fid] is not None else 1 - cv)
                        if len(want) > 1:
                            out.append(('flag', n, it.name))
        # the encoded length of this level becomes the parent's payload length
        payload_len = len(self.encode_fields(n, _with_constraints(self, name, vals), [0] * payload_len))
    return out


def _with_constraints(self, name, vals):
    full = dict(vals)
    for k, v in self.all_constraints(name).items():
        full[k] = self.constraint_value(name, k, v)
    return full


Model.min_len = _min_len
Model.size_faults = _size_faults


def _max_len(self, name, _depth=0):
    """largest number of octets decode can consume for `name`; None if unbounded/large"""
    if _depth > 8:
        return None
    total = 0
    for n in self.chain(name):
        for seg in self.plans[n]:
            if isinstance(seg, Chunk):
                total += seg.nbytes
            elif isinstance(seg, StructSeg):
                s = self.max_len(seg.decl, _depth + 1)
                if s is None:
                    return None
                total += s
            elif isinstance(seg, CustomSeg):
                if seg.nbytes is None:
                    return None
                total += seg.nbytes
            elif isinstance(seg, OptSeg):
                if seg.inner[0] == 'scalar':
                    total += seg.inner[1]
                elif seg.inner[0] == 'enum':
                    total += self.decls[seg.inner[1]].width // 8
                else:
                    s = self.max_len(seg.inner[1], _depth + 1)
                    if s is None:
                        return None
                    total += s
            elif isinstance(seg, PayloadSeg):
                if n != self.chain(name)[-1]:
                    continue     # replaced by the child's fields, bounded by the parent's window
                if not seg.sized:
                    return None
                w = [it.width for s in self.plans[n] if isinstance(s, Chunk) for it in s.items
                     if it.kind == 'size' and it.target in ('_payload_', '_body_')][0]
                if w > 6:
                    return None
                total += (1 << w) - 1
            elif isinstance(seg, ArraySeg):
                if seg.padding is not None:
                    total += seg.padding
                    continue
                es = seg.elem_static
                if es is None and seg.elem[0] == 'struct':
                    es = self.max_len(seg.elem[1], _depth + 1)
                if seg.shape[0] == 'static':
                    if es is None:
                        return None
                    total += es * seg.shape[1]
                elif seg.shape[0] in ('count', 'size'):
                    kind = seg.shape[0]
                    w = [it.width for s in self.plans[n] if isinstance(s, Chunk) for it in s.items
                         if it.kind == kind and it.target == seg.name][0]
                    if w > 6:
                        return None
                    if kind == 'size':
                        total += (1 << w) - 1
                    else:
                        if es is None:
                            return None
                        total += es * ((1 << w) - 1)
                else:
                    return None
            elif isinstance(seg, ChecksumValue):
                total += seg.nbytes
    return total


def _cost_class(self, name) -> str:
    """rough cost of symbolically executing the generated Rust decoder/encoder"""
    heavy = medium = False
    for t in [name] + self.descendants(name):
        for n in self.chain(t):
            for seg in self.plans[n]:
                if isinstance(seg, ArraySeg):
                    medium = True
                    if seg.elem[0] == 'struct' and (seg.elem_static is None or seg.has_elemsize
                                                    or self.decls[seg.elem[1]].parent):
                        heavy = True
                    if seg.padding is not None and seg.shape[0] == 'rest':
                        heavy = True
                    if seg.has_elemsize:
                        heavy = True
                elif isinstance(seg, PayloadSeg):
                    medium = True
                elif isinstance(seg, StructSeg):
                    c = self.cost_class(seg.decl)
                    medium = medium or c != 'cheap'
                    heavy = heavy or c == 'heavy'
                elif isinstance(seg, OptSeg) and seg.inner[0] == 'struct':
                    medium = True
                    heavy = heavy or self.cost_class(seg.inner[1]) == 'heavy'
    if self.children(name):
        medium = True

    def depth(n):
        return 1 + max([depth(c) for c in self.children(n)] + [0])
    if len(self.chain(name)) - 1 + depth(name) >= 3:
        heavy = True
    return 'heavy' if heavy else 'medium' if medium else 'cheap'


Model.max_len = _max_len
Model.cost_class = _cost_class
