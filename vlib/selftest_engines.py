"""Vacuity guard of the engines: deliberately wrong post-conditions must come back violated."""
from __future__ import annotations

import z3

from . import model as M, pysym as S, pycheck, build
from .common import log
from .ref import Model


def pysym_selftest():
    """a correct reference must pass and three sabotaged references must be refuted"""
    f = M.File('little', [M.packet('T', [M.scalar('a', 3), M.scalar('b', 13), M.size('v', 8), M.array('v', width=16)])])
    text = build.pdlc(M.to_pdl(f), 'python', (), 'selftest')
    good = Model(f)

    def run(mdl):
        mod = S.load_module(text, {})
        try:
            r = pycheck.check_parse(mod, mdl, 'selftest', 'T', 7)
            return r
        finally:
            S.unload_module(mod)
    r = run(good)
    if r.findings or r.inconclusive or not r.accept or not r.reject:
        log(f'[selftest] pysym: correct reference not confirmed: {r.findings[:1]} {r.inconclusive[:1]}')
        return False
    # sabotage 1: wrong byte order
    bad1 = Model(f.twin())
    # sabotage 2: wrong shift (fields swapped)
    f2 = M.File('little', [M.packet('T', [M.scalar('a', 13), M.scalar('b', 3), M.size('v', 8), M.array('v', width=16)])])
    bad2 = Model(f2)
    # sabotage 3: off-by-one length guard (size counts elements instead of octets)
    f3 = M.File('little', [M.packet('T', [M.scalar('a', 3), M.scalar('b', 13), M.count('v', 8), M.array('v', width=16)])])
    bad3 = Model(f3)
    for i, b in enumerate((bad1, bad2, bad3)):
        rr = run(b)
        if not rr.findings:
            log(f'[selftest] pysym: sabotaged reference #{i + 1} was NOT refuted')
            return False
    return True


def kani_selftest():
    """the correct reference must pass (with its accepting cover reached); sabotaged references must fail"""
    import os
    from . import harness, kanirun
    from .build import WORK
    f = M.File('little', [M.packet('T', [M.scalar('a', 3), M.scalar('b', 13), M.size('v', 8), M.array('v', width=16)])])
    text = build.pdlc(M.to_pdl(f), 'rust', (), 'selftest')
    f2 = M.File('little', [M.packet('T', [M.scalar('a', 5), M.scalar('b', 11), M.size('v', 8), M.array('v', width=16)])])
    f3 = M.File('little', [M.packet('T', [M.scalar('a', 3), M.scalar('b', 13), M.count('v', 8), M.array('v', width=16)])])
    mods = {}
    for name, ff in (('m_ok', f), ('m_bad_endian', f.twin()), ('m_bad_shift', f2), ('m_bad_size', f3)):
        hg = harness.HarnessGen(Model(ff), 6, 2)
        mods[name] = hg.module(text, [('c04', 'T', 6), ('c03', 'T', 6)])
    crate = os.path.join(WORK, 'kani', 'selftest')
    kanirun.write_crate(crate, mods)
    res, out = kanirun.cargo_kani(crate, kanirun.shard_target(0), jobs=8, harness_timeout=300)
    want = {'m_ok::c04_T': 'success', 'm_ok::c03_T': 'success', 'm_bad_endian::c04_T': 'failed', 'm_bad_endian::c03_T': 'failed',
            'm_bad_shift::c04_T': 'failed', 'm_bad_shift::c03_T': 'failed', 'm_bad_size::c04_T': 'failed'}
    ok = True
    for k, v in want.items():
        r = res.get(k)
        if r is None or r.status != v or (v == 'success' and r.unsat_covers):
            log(f'[selftest] kani: {k}: expected {v}, got {r.status if r else None} {r.unsat_covers if r else ""}')
            ok = False
        elif v == 'failed' and not any(c.startswith(('C03:', 'C04:')) for c in r.failed_checks):
            # the failure must be attributable to the property's own assertions
            log(f'[selftest] kani: {k}: failed checks are not attributed to C03/C04: {r.failed_checks[:3]}')
            ok = False
    if not ok:
        log(out[-1500:])
    return ok


def llir_selftest():
    from . import llir
    good = M.File('little', [M.enum('E', 8, [M.TagValue('A', 0), M.TagValue('B', 255), M.TagRange('R', 16, 31)]),
                             M.packet('P', [M.typedef('e', 'E')])])
    bad = M.File('little', [M.enum('E', 8, [M.TagValue('A', 0), M.TagValue('B', 254), M.TagRange('R', 16, 31)]),
                            M.packet('P', [M.typedef('e', 'E')])])
    bad2 = M.File('little', [M.enum('E', 8, [M.TagValue('A', 0), M.TagValue('B', 255), M.TagRange('R', 16, 32)]),
                             M.packet('P', [M.typedef('e', 'E')])])
    text = build.pdlc(M.to_pdl(good), 'cxx', (), 'selftest')
    cpp, names = llir.isvalid_functions(text)
    if names != ['E']:
        return False
    fns = llir.parse_ir(llir._join_switches(llir.compile_ir(cpp, 'selftest')))
    if llir.check_enum(fns['IsValidE'], Model(good), 'E') is not None:
        return False
    fns = llir.parse_ir(llir._join_switches(llir.compile_ir(cpp, 'selftest')))
    c1 = llir.check_enum(fns['IsValidE'], Model(bad), 'E')
    fns = llir.parse_ir(llir._join_switches(llir.compile_ir(cpp, 'selftest')))
    c2 = llir.check_enum(fns['IsValidE'], Model(bad2), 'E')
    return c1 in (254, 255) and c2 == 32


def main():
    if not pysym_selftest():
        print('setup: E-PYSYM self-test failed')
        return 2
    log('[setup] E-PYSYM self-test: correct oracle confirmed, 3 sabotaged oracles refuted')
    if not llir_selftest():
        print('setup: E-LLIR self-test failed')
        return 2
    log('[setup] E-LLIR self-test: correct membership confirmed, 2 sabotaged memberships refuted')
    if not kani_selftest():
        print('setup: E-KANI self-test failed')
        return 2
    log('[setup] E-KANI self-test: correct reference confirmed (covers reached), 5 sabotaged references refuted')
    return 0
