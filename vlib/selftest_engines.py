"""Vacuity guard of the engines: deliberately wrong post-conditions must come back violated."""
from __future__ import annotations

import z3

from . import model as M, pysym as S, pycheck, build
from .common import log
from .ref import Model


def pysym_selftest():
    """a correct reference must pass and three sabotaged references must be refuted"""
    f = M.File('little', [M.packet('T', [M.scalar('a', 3), M.scalar('b', 13), M.size('v', 8), M.array('v', width=16)])])
    text = build.pdlc(M.to_pdl(f), 'python', (), 'selftest')
    good = Model(f)

    def run(mdl):
        mod = S.load_module(text, {})
        try:
            r = pycheck.check_parse(mod, mdl, 'selftest', 'T', 7)
            return r
        finally:
            S.unload_module(mod)
    r = run(good)
    if r.findings or r.inconclusive or not r.accept or not r.reject:
        log(f'[selftest] pysym: correct reference not confirmed: {r.findings[:1]} {r.inconclusive[:1]}')
        return False
    # sabotage 1: wrong byte order
    bad1 = Model(f.twin())
    # sabotage 2: wrong shift (fields swapped)
    f2 = M.File('little', [M.packet('T', [M.scalar('a', 13), M.scalar('b', 3), M.size('v', 8), M.array('v', width=16)])])
    bad2 = Model(f2)
    # sabotage 3: off-by-one length guard (size counts elements instead of octets)
    f3 = M.File('little', [M.packet('T', [M.scalar('a', 3), M.scalar('b', 13), M.count('v', 8), M.array('v', width=16)])])
    bad3 = Model(f3)
    for i, b in enumerate((bad1, bad2, bad3)):
        rr = run(b)
        if not rr.findings:
            log(f'[selftest] pysym: sabotaged reference #{i + 1} was NOT refuted')
            return False
    return True


def main():
    if not pysym_selftest():
        print('setup: E-PYSYM self-test failed')
        return 2
    log('[setup] E-PYSYM self-test: correct oracle confirmed, 3 sabotaged oracles refuted')
    return 0
