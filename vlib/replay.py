"""./check replay <path> — re-run a recorded counterexample against the real build of /repo's current tree.
exit 1: the violation reproduces; exit 0: it does not; exit 2: this kind of record cannot be replayed standalone."""
from __future__ import annotations

import json


def main(path):
    rec = json.load(open(path))
    eng = rec.get('engine')
    if eng == 'E-PYSYM' and 'direction' in rec:
        from . import pyrun
        ok = pyrun.replay_python(rec)
        print(json.dumps(rec.get('native'), indent=1))
    elif eng == 'E-KANI' and 'pdl' in rec and 'input' in rec:
        ok = replay_kani(rec)
        if ok is None:
            print('this harness kind is replayed inside the check run only')
            return 2
    else:
        print(f'no standalone replay for engine {eng} / this record; re-run the check')
        return 2
    print('REPRODUCED' if ok else 'NOT REPRODUCED')
    return 1 if ok else 0


def replay_kani(rec):
    from . import build, c01, c04, gen, kcheck, model as M, venc
    from .ref import Model
    from .rsreplay import NativeRunner
    kind = rec['sig'].get('kind')
    f = M.parse_pdl(rec['pdl'])
    mdl = Model(f)
    text = build.pdlc(rec['pdl'], 'rust', (), 'replay')
    unit = gen.Unit(rec['desc'], f, [rec['type']], text, rec['pdl'])
    it = kcheck.KItem(unit, mdl, rec['type'], kind, rec.get('input_bound', 8), mdl.cost_class(rec['type']), 'replay')
    if kind in ('c01', 'c04'):
        data = bytes.fromhex(rec['input'])
        runner = NativeRunner(text, [rec['type']], '', c01.conv_arms([it]) if kind == 'c01' else '')
        try:
            ok, obs = (c01.replay_native if kind == 'c01' else c04.replay_native)(runner, it, data)
        finally:
            runner.cleanup()
    elif kind in ('c02', 'c03', 'c05', 'c16'):
        words = rec['input']
        runner = NativeRunner(text, [rec['type']], '', venc.value_arms([it]), venc.rf_text([it]))
        clauses = ('encode', 'roundtrip') if kind == 'c02' else ('encode',)
        try:
            ok, obs = venc.make_replay(clauses)(runner, it, words)
        finally:
            runner.cleanup()
    else:
        return None
    print(json.dumps(obs, indent=1)[:3000])
    return ok
