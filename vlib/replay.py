"""./check replay <path> — re-run a recorded counterexample against the real build"""
from __future__ import annotations

import json


def main(path):
    rec = json.load(open(path))
    eng = rec.get('engine')
    if eng == 'E-PYSYM':
        from . import pyrun
        ok = pyrun.replay_python(rec)
        print(json.dumps(rec.get('native'), indent=1))
    elif eng == 'E-KANI':
        from . import kanirun
        ok = kanirun.replay(rec, verbose=True)
    else:
        print('unknown engine', eng)
        return 2
    print('REPRODUCED' if ok else 'NOT REPRODUCED')
    return 1 if ok else 0
