"""Run the E-PYSYM checks over a corpus in parallel, replay findings natively,
and summarise for the evidence file.  Used by C13 and by the Python legs of
C07 / C15 / C17."""
from __future__ import annotations

import multiprocessing as mp
import os
import subprocess
import sys
import time
import json
from typing import List

import z3

from . import corpus, gen, model as M, pysym as S, pycheck
from .build import build_pdlc, VERIF
from .common import log
from .ref import Model, Unsupported


def _expensive(mdl: Model, root, depth=0) -> bool:
    """arrays of dynamically sized elements multiply paths with every element"""
    from .ref import ArraySeg, StructSeg, OptSeg
    if depth > 6:
        return False
    for t in [root] + mdl.descendants(root):
        for seg in mdl.plans[t]:
            if isinstance(seg, ArraySeg):
                if seg.elem_static is None:
                    return True
            elif isinstance(seg, StructSeg):
                if _expensive(mdl, seg.decl, depth + 1):
                    return True
            elif isinstance(seg, OptSeg) and seg.inner[0] == 'struct':
                if _expensive(mdl, seg.inner[1], depth + 1):
                    return True
    return False


def bound_for(mdl: Model, root, cap, extra=4):
    ms = [mdl.min_len(t) for t in [root] + mdl.descendants(root)]
    m = max(ms)
    if not _expensive(mdl, root):
        cap = cap + 10
    if m + 1 > cap:
        return None      # no accepting input within the cap: outside the bound, reported as such
    return min(cap, m + extra)


def py_supported(mdl: Model, tname) -> bool:
    """constructs the reference interpreter implements for the Python backend"""
    try:
        for n in [tname] + mdl.descendants(tname):
            for f in mdl.fields[n]:
                if f.kind == 'elemsize':
                    return False
                if f.type_id and mdl.decls.get(f.type_id) is not None:
                    d = mdl.decls[f.type_id]
                    if d.kind == 'custom_field' and d.width is None:
                        return False
                    if d.kind == 'struct' and not py_supported(mdl, f.type_id):
                        return False
        return True
    except KeyError:
        return False


def _job(args):
    desc, cap, directions, ser_limit, budget_s = args
    t0 = time.time()
    out = {'desc': desc.id, 'reports': [], 'gen_failed': {}, 'gen_unexpected': {}, 'skipped': [], 'beyond_cap': [], 'pdl': None,
           'error': None}
    try:
        g = gen.generate(desc, 'python')
        out['gen_failed'] = g.failed
        out['gen_unexpected'] = g.unexpected
        deadline = time.time() + budget_s
        for u in g.units:
            mdl = Model(u.file)
            pre = pycheck.custom_standins(mdl)
            mod = S.load_module(u.text, pre)
            try:
                for t in u.types:
                    if not py_supported(mdl, t):
                        out['skipped'].append(t)
                        continue
                    if 'parse' in directions and not mdl.decls[t].parent:
                        L = bound_for(mdl, t, cap)
                        if L is None:
                            out['beyond_cap'].append(t)
                        else:
                            r = pycheck.check_parse(mod, mdl, u.desc_id, t, L, deadline)
                            out['reports'].append((u.pdl, r))
                    if 'serialize' in directions:
                        r = pycheck.check_serialize(mod, mdl, u.desc_id, t, deadline, ser_limit, desc.roundtrip)
                        out['reports'].append((u.pdl, r))
            finally:
                S.unload_module(mod)
    except Exception as e:  # noqa
        import traceback
        out['error'] = traceback.format_exc()
    out['wall_s'] = time.time() - t0
    return out


def run_corpus(descs: List[corpus.Desc], cap, directions=('parse', 'serialize'), ser_limit=16, budget_s=600,
               workers=16):
    build_pdlc()
    jobs = []
    for d in descs:
        ts = d.check_types()
        if len(ts) > 16:
            import copy
            for i in range(0, len(ts), 12):
                dd = copy.copy(d)
                dd.types = ts[i:i + 12]
                jobs.append((dd, cap, directions, ser_limit, budget_s))
        else:
            jobs.append((d, cap, directions, ser_limit, budget_s))
    jobs.sort(key=lambda j: -len(j[0].check_types()))
    ctx = mp.get_context('fork')
    with ctx.Pool(workers) as pool:
        results = pool.map(_job, jobs, chunksize=1)
    return results


# --------------------------------------------------------------------------- native replay
def replay_python(record: dict) -> bool:
    """re-run a finding against plain CPython and the unmodified generated module"""
    code = r'''
import json, sys
sys.path.insert(0, %r)
from vlib import model as M, pysym as S, pycheck, build
from vlib.ref import Model
rec = json.load(open(sys.argv[1]))
f = M.parse_pdl(rec['pdl'])
mdl = Model(f)
text = build.pdlc(rec['pdl'], 'python', (), 'replay')
pre = pycheck.custom_standins(mdl, symbolic=False)
mod = S.load_module(text, pre, symbolic=False)
c = S._Ctx([])
S._ctx = c
out = {}
if rec['direction'] == 'parse':
    st = pycheck.parse_path(c, mod, mdl, rec['type'], bytes.fromhex(rec['input']), out)
else:
    model = rec.get('model', {})
    mk = lambda name, width: int(model.get(name, 0)) & ((1 << width) - 1)
    mkb = lambda prefix, n: bytes(int(model.get(f'{prefix}{i}', 0)) & 0xff for i in range(n))
    st = pycheck.serialize_path(c, mod, mdl, rec['type'], rec['shape'], out, mk, mkb, symbolic=False,
                                roundtrip=rec.get('roundtrip', True))
f_ = out.get('finding')
print(json.dumps({'status': st, 'kind': f_.kind if f_ else None, 'sig': f_.sig if f_ else None,
                  'detail': f_.detail if f_ else None}))
''' % VERIF
    tmp = os.path.join(VERIF, 'work', 'replay_in.json')
    os.makedirs(os.path.dirname(tmp), exist_ok=True)
    with open(tmp + f'.{os.getpid()}', 'w') as f:
        json.dump(record, f)
    try:
        p = subprocess.run([sys.executable, '-c', code, tmp + f'.{os.getpid()}'], capture_output=True, text=True,
                           timeout=60)
    except subprocess.TimeoutExpired:
        return record.get('kind') == 'nontermination'
    finally:
        try:
            os.unlink(tmp + f'.{os.getpid()}')
        except OSError:
            pass
    if p.returncode != 0:
        log('[replay] native replay crashed: ' + p.stderr[-600:])
        return False
    try:
        got = json.loads(p.stdout.strip().splitlines()[-1])
    except Exception:  # noqa
        return False
    record['native'] = got
    return got['kind'] == record['kind'] and (got['sig'] or {}) == (record.get('sig') or {})


def finding_record(prop, pdl, f: pycheck.Finding, direction) -> dict:
    rec = {'property': prop, 'engine': 'E-PYSYM', 'backend': 'python', 'desc': f.desc, 'type': f.type,
           'direction': direction, 'kind': f.kind, 'detail': f.detail, 'sig': f.sig, 'pdl': pdl}
    if f.input is not None:
        rec['input'] = f.input.hex()
    if 'model' in f.extra:
        rec['model'] = f.extra['model']
    if 'shape' in f.extra:
        rec['shape'] = f.extra['shape']
    if 'traceback' in f.extra:
        rec['traceback'] = f.extra['traceback']
    return rec
