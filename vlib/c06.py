"""C06 — inheritance is coherent: constraints, specialization, parent/child conversion (E-KANI)."""
from __future__ import annotations

import os
import re
import time

from . import kcheck, venc, c04
from .common import Outcome, write_evidence, log
from .kcheck import KItem
from .ref import Unsupported
from .rsreplay import NativeRunner

PROP = 'C06'
QUOTAS = {
    'quick': {'cheap': 0, 'medium': 1, 'heavy': 0, 'F4:medium': 12, 'F5:medium': 1, 'F2:medium': 0, 'R:medium': 4},
    'thorough': {'cheap': 0, 'medium': 40, 'heavy': 8, 'F4:medium': 120, 'F4:heavy': 20, 'R:medium': 40},
}


def conv_arms(items):
    arms = []
    seen = set()
    for it in items:
        mdl, t = it.mdl, it.type
        kk = 'dec' if it.kind in ('c06d', 'c06s', 'c06t') else it.kind
        if (t, kk) in seen:
            continue
        seen.add((t, kk))
        if it.kind in ('c06d', 'c06s', 'c06t'):
            body = [f'("{t}", "spec") => {{ match {t}::decode_full(b) {{ Err(e) => format!("ERR {{}}", dvariant(&e)), Ok(p) => {{',
                    '    let mut out = String::from("OK spec=");',
                    '    match p.specialize() {']
            for X in mdl.children(t):
                body.append(f'        Ok({t}Child::{X}(c)) => {{ out += &format!("{X}:{{}}", reenc(&c)); }}')
            body.append(f'        Ok({t}Child::None) => {{ out += "None"; }}')
            body.append('        Err(e) => { out += &format!("Err:{}", dvariant(&e)); }')
            body.append('    }')
            for X in mdl.children(t):
                body.append(f'    match {X}::try_from(&p) {{ Ok(c) => {{ out += &format!(" {X}=ok:{{}}", reenc(&c)); }} Err(e) => {{ out += &format!(" {X}=err:{{}}", dvariant(&e)); }} }}')
            body.append('    out } } }')
            arms.append('\n'.join(body))
        else:
            P = mdl.decls[t].parent
            K = it.K
            arms.append(f'''        ("{t}", "up") => {{
            let mut s = VecSrc {{ words, i: 0 }};
            let mut drawn = true;
            let rv = rf::draw_{t}(&mut s, {K}, {K}, &mut drawn);
            if !drawn {{ return "NODRAW".to_string(); }}
            match rf::build_{t}(&rv) {{ None => "NOBUILD".to_string(), Some(c) => match {P}::try_from(&c) {{
                Err(_) => "UPERR".to_string(),
                Ok(p) => {{ let back = match {t}::try_from(&p) {{ Ok(x) => if x == c {{ "same".to_string() }} else {{ "differs".to_string() }}, Err(e) => format!("err:{{}}", dvariant(&e)) }};
                    format!("OK parent={{}} child={{}} back={{}} dbg={{:?}}", reenc(&p), reenc(&c), back, p) }} }} }}
        }}''')
    return '\n'.join(arms)


def replay_native(runner: NativeRunner, it: KItem, inp):
    obs, bad = {}, False
    mdl, t = it.mdl, it.type
    for profile in ('dev', 'release'):
        if it.kind in ('c06d', 'c06s', 'c06t'):
            r = runner.run(profile, t, 'spec', inp)
            obs[profile] = r[:500]
            if not r.startswith('OK'):
                continue
            try:
                pv = mdl.decode(t, inp)
            except Exception as e:  # noqa
                continue
            # reference: which children accept this parent value
            acc = {}
            for X in mdl.children(t):
                try:
                    acc[X] = bytes(mdl.encode(X, mdl.decode(X, inp))).hex()
                except Exception:  # noqa
                    acc[X] = None
            cons_ok = {}
            for X in mdl.children(t):
                cons_ok[X] = all(pv.get(k) == mdl.constraint_value(X, k, v) for k, v in mdl.decls[X].constraints)
            obs[profile + ':reference'] = {'accepting_children': acc, 'constraints_ok': cons_ok}
            for X in mdl.children(t):
                m = re.search(rf' {X}=(ok|err):(\S+)', r)
                if not m:
                    continue
                if m.group(1) == 'ok':
                    if acc[X] is None or not m.group(2).startswith(acc[X]):
                        bad = True
                else:
                    if acc[X] is not None:
                        bad = True
                    if (not cons_ok[X]) != (m.group(2) == 'ConstraintValueError'):
                        bad = True
            sm = re.search(r'spec=(\S+)', r).group(1)
            matching = [X for X in mdl.children(t) if _subtree_matches(mdl, t, X, pv)]
            if len(matching) == 1:
                X = matching[0]
                if acc[X] is not None:
                    if not sm.startswith(X + ':'):
                        bad = True
                elif not sm.startswith('Err'):
                    bad = True
            elif len(matching) == 0 and sm != 'None':
                bad = True
        else:
            r = runner.run(profile, t, 'up', b'', inp)
            obs[profile] = r[:500]
            if r.startswith(('UPERR', 'PANIC')):
                exp = venc.expected(it, inp)
                if exp.get('drawn') and exp.get('buildable') and not exp.get('faults'):
                    bad = True
            m = re.match(r'OK parent=(\S+) len=\d+ child=(\S+) len=\d+ back=(\S+)', r)
            if m and (m.group(1) != m.group(2) or m.group(3) != 'same'):
                bad = True
            if m:
                # the parent must carry the constraint constants (scalar constraints are visible in the Debug output)
                dbg = r.split('dbg=', 1)[1] if 'dbg=' in r else ''
                for k, v in mdl.all_constraints(t).items():
                    if isinstance(v, int):
                        dm = re.search(rf'\b{k}: (\d+)', dbg)
                        if dm and int(dm.group(1)) != v:
                            bad = True
                # and the child's own encoding must be the reference encoding (constants included)
                exp = venc.expected(it, inp)
                if exp.get('bytes') is not None and m.group(2) != (exp['bytes'] or '-'):
                    bad = True
    return bad, obs


def _subtree_matches(mdl, P, X, pv):
    """does the parent value match the constraints of X or of a descendant of X (payload length where only size differs)?"""
    from .harness import HarnessGen
    rr = HarnessGen(mdl, 4).rr
    cases, with_size = rr.spec_cases(P)
    pl = len(pv.get('payload', []))
    for acc, sz in cases[X]:
        if all(pv.get(k) == v for k, v in acc.items()) and (not with_size or sz is None or sz == pl):
            return True
    return False


def extract(it: KItem, vals):
    if it.kind in ('c06d', 'c06s', 'c06t'):
        return kcheck.decode_input_from_vals(vals, it.L)
    return venc.extract_words(it, vals)


def main(tier, seed):
    os.environ['VERIF_TIER_EFF'] = tier
    t0 = time.time()
    out = Outcome(PROP)

    def want(mdl, u, t, d):
        ks = []
        if mdl.children(t):
            ks.extend(['c06s', 'c06t'] if tier == 'quick' else ['c06d'])
        if mdl.decls[t].parent:
            ks.append('c06v')
        return ks
    items, info = kcheck.gather(tier, seed, want, QUOTAS[tier], out=out)
    for it in items:
        it.K = 2
    log(f'[C06] {len(items)} harnesses selected of {info["candidates"]} candidates')
    cov = kcheck.run_and_judge(PROP, tier, seed, items, info, out, replay_native, conv_arms, own_prefixes=('C06:',),
                               extract=extract, inner_fn=venc.rf_text)
    cov['functions_encoded'] = ['<Parent>::specialize (generated match on constraint tuples and payload length)',
                                '<Child>::try_from(&Parent) / decode_partial', '<Parent>::try_from(&Child) / encode_partial',
                                'rf::ref_spec_<Parent>, rf::ref_try_<Parent>_<Child> (oracle printed from the constraint tuples of our model)']
    cov['assumed_away'] = 'parent values on which two children match (ambiguous descriptions) are outside the oracle'
    write_evidence(PROP, tier, seed, 'model_checking', cov,
                   ['parents are decoded from arbitrary bytes (all b up to the bound) and children are drawn as arbitrary well-formed values',
                    'the specialization oracle follows the property statement: constraints of X or of a descendant of X, '
                    'payload length only where children share a constraint tuple'],
                   time.time() - t0, len(out.violations))
    return out.finish()
