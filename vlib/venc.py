"""Shared by the value-driven E-KANI checks (C02, C03, C05, C16, C17): native replay of a
counterexample given as the words the reference value was drawn from."""
from __future__ import annotations

import re
from typing import List

from . import harness, model as M
from .kcheck import KItem
from .ref import Model, Unsupported, Chunk, OptSeg, StructSeg, ArraySeg
from .rsreplay import NativeRunner
from .rustref import backing

EVARIANT = {'scalar': 'InvalidScalarValue', 'size': 'SizeOverflow', 'padding': 'SizeOverflow',
            'elemsize': 'SizeOverflow', 'count': 'CountOverflow', 'elemsize_mismatch': 'InvalidArrayElementSize',
            'flag': 'InconsistentConditionValue'}


def extract_words(it: KItem, vals: List[bytes]):
    return [int.from_bytes(v, 'little') for v in vals]


def rf_text(it_list: List[KItem]) -> str:
    """the reference module (decode + encode side) to embed in the native runner"""
    u, mdl = it_list[0].unit, it_list[0].mdl
    hg = harness.HarnessGen(mdl, max(i.L for i in it_list), K=it_list[0].K)
    hg.force_encode_side = True
    from .rustref import W
    w = W()
    w.open('pub mod rf {')
    w('use super::*;')
    w('use crate::support::*;')
    w(hg.rr.emit_decode_side())
    w(hg.rr.emit_encode_side())
    w.close()
    return w.text()


def value_arms(items: List[KItem]) -> str:
    arms = []
    seen = set()
    for it in items:
        t, mdl, K = it.type, it.mdl, it.K
        if t in seen:
            continue
        seen.add(t)
        ch = mdl.chain(t)
        anc = ['let mut anc = "same".to_string();']
        if len(ch) > 1:
            anc.append(f'match {ch[0]}::decode_full(&b) {{ Ok(p0) => {{')
            for i in range(1, len(ch)):
                anc.append(f'  match p{i - 1}.specialize() {{ Ok({ch[i - 1]}Child::{ch[i]}(p{i})) => {{')
            anc.append(f'  if p{len(ch) - 1} != v {{ anc = "differs".to_string(); }}')
            for i in range(1, len(ch)):
                anc.append('  } _ => { anc = "nospecialize".to_string(); } }')
            anc.append('} Err(e) => { anc = format!("rooterr:{}", dvariant(&e)); } }')
        arms.append(f'''        ("{t}", "enc") => {{
            let mut s = VecSrc {{ words, i: 0 }};
            let mut drawn = true;
            let rv = rf::draw_{t}(&mut s, {K}, {K}, &mut drawn);
            if !drawn {{ return "NODRAW".to_string(); }}
            match rf::build_{t}(&rv) {{
                None => "NOBUILD".to_string(),
                Some(v) => match v.encode_to_vec() {{
                    Ok(b) => {{
                        let rt = match {t}::decode_full(&b) {{ Ok(x) => if x == v {{ "same".to_string() }} else {{ "differs".to_string() }}, Err(e) => format!("err:{{}}", dvariant(&e)) }};
                        {" ".join(anc)}
                        format!("OK {{}} len={{}} rt={{}} anc={{}}", if b.is_empty() {{ "-".to_string() }} else {{ hex(&b) }}, v.encoded_len(), rt, anc)
                    }}
                    Err(e) => format!("ERR {{}}", evariant(&e)),
                }},
            }}
        }}''')
    return '\n'.join(arms)


def scalar_faults(mdl: Model, name, vals) -> List[str]:
    out = []
    for n in mdl.chain(name):
        for seg in mdl.plans[n]:
            if isinstance(seg, Chunk):
                for itm in seg.items:
                    if itm.kind == 'scalar' and itm.name in vals and vals[itm.name] is not None:
                        if vals[itm.name] >> itm.width:
                            out.append('scalar')
            elif isinstance(seg, OptSeg):
                v = vals.get(seg.name)
                if v is None:
                    continue
                if seg.inner[0] == 'scalar' and v >> (8 * seg.inner[1]):
                    out.append('scalar')
                elif seg.inner[0] == 'struct':
                    out.extend(scalar_faults(mdl, seg.inner[1], v))
            elif isinstance(seg, StructSeg):
                out.extend(scalar_faults(mdl, seg.decl, vals[seg.name]))
            elif isinstance(seg, ArraySeg) and seg.elem[0] == 'struct':
                for x in vals[seg.name]:
                    out.extend(scalar_faults(mdl, seg.elem[1], x))
            elif isinstance(seg, ArraySeg) and seg.elem[0] == 'scalar':
                for x in vals[seg.name]:
                    if x >> (8 * seg.elem_static):
                        out.append('scalar')
    return out


def enums_valid(mdl: Model, name, vals) -> bool:
    for decl_name, f in mdl.data_fields(name):
        v = vals.get(f.name)
        if v is None or f.type_id is None:
            continue
        k = mdl.kind_of(f.type_id)
        xs = v if f.kind == 'array' else [v]
        for x in xs:
            if k == 'enum':
                d = mdl.decls[f.type_id]
                if x >> d.width or not mdl.enum_valid(f.type_id, x):
                    return False
            elif k == 'custom_field':
                if x >> mdl.decls[f.type_id].width:
                    return False
            elif k == 'struct' and not enums_valid(mdl, f.type_id, x):
                return False
    return True


def expected(it: KItem, words: List[int]):
    """what the reference says about the value drawn from `words`"""
    rr = harness.HarnessGen(it.mdl, it.L, it.K).rr
    vals, ok = rr.value_from_words(it.type, words, it.K, it.K)
    if not ok:
        return {'drawn': False}
    if not enums_valid(it.mdl, it.type, vals):
        return {'drawn': True, 'buildable': False}
    faults = scalar_faults(it.mdl, it.type, vals) + [f[0] for f in it.mdl.size_faults(it.type, vals)]
    exp = {'drawn': True, 'buildable': True, 'faults': faults, 'value': repr(vals)[:600]}
    if not faults:
        exp['bytes'] = bytes(it.mdl.encode(it.type, vals)).hex()
    return exp


def judge(it: KItem, exp: dict, native: str, clauses=('encode', 'roundtrip')):
    """(differs, why): compare the native outcome with the reference expectation"""
    if not exp.get('drawn') or not exp.get('buildable'):
        return False, 'value outside the harness domain'
    if native.startswith(('NODRAW', 'NOBUILD', 'BAD')):
        return False, f'native runner could not build the value ({native})'
    if native.startswith(('PANIC', 'HANG', 'NOOUTPUT')):
        return 'encode' in clauses, f'encode did not return: {native[:120]}'
    faults = exp['faults']
    if native.startswith('ERR'):
        if not faults:
            return True, f'encode fails ({native}) on a well-formed value'
        if len(faults) == 1 and EVARIANT.get(faults[0]) != native.split()[1]:
            return True, f'single cause {faults[0]} reported as {native.split()[1]}'
        return False, 'agree (error)'
    m = re.match(r'OK (\S+) len=(\d+) rt=(\S+) anc=(\S+)', native)
    if not m:
        return False, 'unparsed native output'
    got = '' if m.group(1) == '-' else m.group(1)
    if faults:
        return True, f'encode succeeds on a value with faults {faults} (wrote {got})'
    if got != exp['bytes']:
        return True, f'encoded {got}, reference {exp["bytes"]}'
    if int(m.group(2)) != len(got) // 2:
        return True, f'encoded_len()={m.group(2)} but {len(got) // 2} octets written'
    if 'roundtrip' in clauses and (m.group(3) != 'same' or m.group(4) != 'same'):
        return True, f'round trip: decode_full -> {m.group(3)}, via ancestors -> {m.group(4)}'
    return False, 'agree'


def make_replay(clauses):
    def replay_native(runner: NativeRunner, it: KItem, words):
        obs = {}
        bad = False
        exp = expected(it, words)
        obs['expected'] = exp
        for profile in ('dev', 'release'):
            r = runner.run(profile, it.type, 'enc', b'', words)
            differs, why = judge(it, exp, r, clauses)
            obs[profile] = {'native': r[:400], 'verdict': why}
            bad = bad or differs
        return bad, obs
    return replay_native
