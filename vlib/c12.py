"""C12 — parser fidelity, ONE clause only: line/column consistent with the byte offset
(ast::SourceLocation::new), decided by E-KANI over the real function.  Everything that goes
through the pest grammar is not decided (DESIGN.md §4 C12, §5)."""
from __future__ import annotations

import re
import subprocess
import time

from . import build, kernels, kanirun
from .common import Outcome, write_evidence, log

PROP = 'C12'


def run_kernels(prop, prefix, out: Outcome, replay):
    res, text = kernels.run([prefix])
    cov = {'harnesses': 0, 'held': 0, 'failed': 0, 'solver_s': 0.0, 'properties_checked': 0, 'samples': []}
    if not res:
        out.inconclusive_item('kernel harness crate did not build/run: ' + text[-600:])
    for k, r in sorted(res.items()):
        cov['harnesses'] += 1
        cov['solver_s'] += r.time_s
        cov['properties_checked'] += r.n_props
        cov['samples'].append({'harness': k, 'verdict': r.status, 'cbmc_time_s': r.time_s, 'properties': r.n_props,
                               'failed_checks': r.failed_checks[:4]})
        if r.status == 'success' and not r.unsat_covers:
            cov['held'] += 1
        elif r.status == 'failed':
            cov['failed'] += 1
            mine = [c for c in r.failed_checks]
            ok, obs = replay(k, mine)
            rec = {'property': prop, 'engine': 'E-KANI', 'harness': k, 'failed_checks': mine, 'native': obs,
                   'sig': {'kind': 'kernel', 'harness': k.split('::')[-1], 'checks': ' | '.join(sorted(set(mine)))}}
            out.violation(rec['sig'], rec, reproduced=ok)
        else:
            out.inconclusive_item(f'{k}: {r.status} {r.unsat_covers}')
    cov['solver_s'] = round(cov['solver_s'], 1)
    return cov


def _playback(harness):
    d = kernels.os.path.join(kernels.WORK, 'kani', 'kernels')
    res, text = kanirun.cargo_kani(d, kernels.os.path.join(kernels.TARGET, 'kani', 'kernels'), [harness], jobs=1,
                                   harness_timeout=600, extra=['-Z', 'concrete-playback', '--concrete-playback=print'])
    outs = []
    for m in re.finditer(r'/// Check for `(\w+)`: ([^\n]*)\n\s*\n?#\[test\]\s*\nfn \w+\(\) \{\s*\n\s*let concrete_vals: Vec<Vec<u8>> = vec!\[(.*?)\n\s*\];', text, re.S):
        vals = [bytes(int(x) for x in vm.group(1).replace(' ', '').split(',') if x) for vm in re.finditer(r'vec!\[([0-9, ]*)\]', m.group(3))]
        outs.append((m.group(1), m.group(2), vals))
    return outs


def replay_srcloc(harness, checks):
    exe = build.build_driver()
    for cls, desc, vals in _playback(harness.split('::')[-1]):
        if cls == 'cover' or len(vals) < 10:
            continue
        words = [int.from_bytes(v, 'little') for v in vals]
        raw, n, offset = words[:8], words[8], words[9]
        if not (1 <= n <= 8):
            continue
        starts = raw[:n]
        p = subprocess.run([exe, '--srcloc', str(offset)] + [str(x) for x in starts], capture_output=True, text=True, timeout=30)
        try:
            off, line, col = [int(x) for x in p.stdout.split()]
        except ValueError:
            return p.returncode != 0, {'stdout': p.stdout[-200:], 'stderr': p.stderr[-300:]}
        want_line = max(i for i in range(n) if starts[i] <= offset)
        ok = (off, line, col) == (offset, want_line, offset - starts[want_line])
        return (not ok), {'offset': offset, 'line_starts': starts, 'got': [off, line, col], 'want': [offset, want_line, offset - starts[want_line]]}
    return False, {'error': 'no playback values'}


def main(tier, seed):
    t0 = time.time()
    out = Outcome(PROP)
    cov = run_kernels(PROP, 'c12_', out, replay_srcloc)
    cov.update({'evaluations': cov['harnesses'], 'distinct_nontrivial': max(cov['held'], 0), 'rule': 'one evaluation = one #[kani::proof] kernel harness; '
                'non-trivial = its reachability cover was satisfied', 'obligations': cov['harnesses'], 'discharged': cov['held'],
                'functions_encoded': ['pdl_compiler::ast::SourceLocation::new'],
                'bounds': 'line tables of 1..8 strictly increasing entries starting at 0 (and the empty table); offset: every usize',
                'not_decided': 'literal conversion, whitespace/comment handling, print/parse round trip, rejection of near-miss texts: '
                               'all go through the pest VM, which Kani cannot execute symbolically here (DESIGN §2.4)'})
    if cov['distinct_nontrivial'] < 2:
        cov['distinct_nontrivial'] = cov['held']
    write_evidence(PROP, tier, seed, 'model_checking', cov, ['public API of pdl-compiler through a path dependency, no hooks'],
                   time.time() - t0, len(out.violations))
    return out.finish()
