"""C04 — the Rust decoder accepts exactly the reference language (E-KANI, differential)."""
from __future__ import annotations

import os
import re
import time

from . import kcheck
from .common import Outcome, write_evidence, log
from .kcheck import KItem
from .ref import Unsupported
from .rsreplay import NativeRunner

PROP = 'C04'
QUOTAS = {
    'quick': {'cheap': 1, 'medium': 2, 'heavy': 0, 'F1:cheap': 8, 'F2:medium': 6, 'F6:cheap': 2, 'R:cheap': 3, 'R:medium': 4},
    'thorough': {'cheap': 150, 'medium': 80, 'heavy': 12, 'F1:cheap': 500, 'F2:medium': 120, 'R:cheap': 60,
                 'R:medium': 70, 'R:heavy': 16},
}
VARIANT = {'length': 'LengthError', 'trailing': 'TrailingBytesError', 'fixed': 'FixedValueError',
           'enum': 'EnumValueError', 'array_size': 'ArraySizeError', 'constraint': 'ConstraintValueError',
           'trailing_in_array': 'TrailingBytesInArray'}


def compare_decode(mdl, t, data: bytes, native: str):
    """compare one native `decode` outcome with the Python reference; returns (differs, why)"""
    try:
        ok, v, used, faults = mdl.decode_lenient(t, data, full=False)
    except Unsupported as e:
        return False, f'reference unsupported: {e}'
    if native.startswith(('PANIC', 'HANG', 'NOOUTPUT', 'BAD')):
        return False, 'native run did not return (a matter for C01)'
    if native.startswith('OK'):
        if not ok:
            return True, f'decoder accepts, reference rejects ({faults})'
        m = re.match(r'OK used=(\d+) suffix=(\w+) reenc=(\S+)', native)
        if int(m.group(1)) != used:
            return True, f'consumed {m.group(1)} octets, reference {used}'
        want = bytes(mdl.encode(t, v)).hex()
        if m.group(3) != want:
            return True, f're-encoded value {m.group(3)} differs from the canonical reference encoding {want}'
        return False, 'agree (accept)'
    if native.startswith('ERR'):
        if ok:
            return True, 'decoder rejects, reference accepts'
        var = native.split()[1]
        if len(faults) == 1 and VARIANT.get(faults[0]) != var:
            return True, f'single fault {faults[0]} reported as {var}'
        return False, 'agree (reject)'
    return False, 'unparsed native output'


def replay_native(runner: NativeRunner, it: KItem, data: bytes):
    obs = {}
    bad = False
    for profile in ('dev', 'release'):
        r = runner.run(profile, it.type, 'decode', data)
        differs, why = compare_decode(it.mdl, it.type, data, r)
        obs[profile] = {'native': r[:400], 'verdict': why}
        bad = bad or differs
    return bad, obs


def main(tier, seed):
    os.environ['VERIF_TIER_EFF'] = tier
    t0 = time.time()
    out = Outcome(PROP)
    def want(mdl, u, t, d):
        # c04r (re-encode clause by the solver): core (type, kind) pairs in the quick tier, every type in the thorough tier
        if tier == 'thorough' or (d.core and 'c04r' in (d.core_kinds or {}).get(t, [])):
            return ['c04', 'c04r'] if d.roundtrip else ['c04']
        return ['c04']
    items, info = kcheck.gather(tier, seed, want, QUOTAS[tier], out=out)
    log(f'[C04] {len(items)} harnesses selected of {info["candidates"]} candidates')
    cov = kcheck.run_and_judge(PROP, tier, seed, items, info, out, replay_native, None, own_prefixes=('C04:',))
    cov['functions_encoded'] = ['<T>::decode (generated, incl. parent decode + decode_partial for children)',
                                '<Enum>::try_from', 'bytes::Buf for &[u8]', 'rf::ref_decode_<T> (reference, printed from our layout plan)',
                                'rf::eq_<T>']
    cov['disagreements_checked'] = cov['failed']
    cov['clauses'] = ['accept iff reference accepts', 'consumed length', 'every field value', 'single fault -> DecodeError variant']
    cov['clauses'].append('c04r harnesses: encode(decode_full(b)) == ref_encode(ref_decode(b)) for every accepted b (core pairs in the quick tier, every round-trippable type in the thorough tier)')
    cov['functions_encoded'] += ['<T>::encode (c04r)', 'rf::ref_encode_<T> (c04r)']
    write_evidence(PROP, tier, seed, 'translation_validation', cov,
                   ['reference model validated on the canonical vectors; Rust rendering cross-checked against the Python rendering on every replay',
                    'inputs on which the reference exceeds its fixed capacity are assumed away (Fault::Cap)'],
                   time.time() - t0, len(out.violations))
    return out.finish()
