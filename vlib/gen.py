"""Generate code for a corpus description with the pdlc built from /repo.

If pdlc fails on a whole file the file is split into its inheritance
components (a packet/struct tree plus everything it references) and each is
retried alone, so one construct the backend cannot print does not hide the
others.  Failures are returned, never swallowed: the caller decides (a failure
that is not in KNOWN_GEN_FAIL makes the check inconclusive).
"""
from __future__ import annotations

import re
from dataclasses import dataclass, field as dfield
from typing import Dict, List

from . import model as M
from .build import pdlc, PdlcReject
from .corpus import Desc

# generator crashes seen on the pinned tree for descriptions the analyzer accepts.
# They concern C10 (compiler never crashes), which this framework does not claim; the
# affected types are left out of the corpus of the claimed properties and listed in evidence.
KNOWN_GEN_FAIL = [
    (re.compile(r'attempt to shift left with overflow'), 'mask_bits(64): 64-bit size/count field (rust)'),
    (re.compile(r'Could not parse code: Error\("expected one of'),
     '`x as uN << k` printed without parentheses: size/count field at a non-zero shift whose backing type equals the chunk type (rust)'),
]


@dataclass
class Unit:
    desc_id: str
    file: M.File
    types: List[str]
    text: str           # generated code
    pdl: str


@dataclass
class GenResult:
    units: List[Unit] = dfield(default_factory=list)
    failed: Dict[str, str] = dfield(default_factory=dict)       # type -> known reason
    unexpected: Dict[str, str] = dfield(default_factory=dict)   # type -> stderr tail


def _deps(f: M.File, name, acc):
    if name in acc or not f.has(name):
        return
    acc.add(name)
    d = f.get(name)
    if d.parent:
        _deps(f, d.parent, acc)
    for fl in d.fields:
        if fl.type_id:
            _deps(f, fl.type_id, acc)
        if fl.kind == 'typedef' or fl.kind == 'array':
            pass
    for c in f.children(name):
        _deps(f, c.name, acc)


def components(f: M.File, types: List[str]):
    """[(type names checked, sub-file)] one per inheritance tree"""
    seen = set()
    out = []
    for t in types:
        if t in seen:
            continue
        root = t
        while f.get(root).parent:
            root = f.get(root).parent
        acc = set()
        _deps(f, root, acc)
        tree = [x for x in types if x in acc and _root(f, x) == root]
        seen.update(tree)
        sub = M.File(f.endianness, [d for d in f.decls if d.name in acc], f.name)
        out.append((tree, sub))
    return out


def _root(f, name):
    while f.get(name).parent:
        name = f.get(name).parent
    return name


def _classify(err: str):
    for rx, why in KNOWN_GEN_FAIL:
        if rx.search(err):
            return why
    return None


def generate(desc: Desc, backend: str, extra=()) -> GenResult:
    res = GenResult()
    types = desc.check_types()
    pdl = M.to_pdl(desc.file)
    try:
        text = pdlc(pdl, backend, extra, desc.id)
        res.units.append(Unit(desc.id, desc.file, types, text, pdl))
        return res
    except PdlcReject:
        pass
    for i, (tree, sub) in enumerate(components(desc.file, types)):
        pdl = M.to_pdl(sub)
        try:
            text = pdlc(pdl, backend, extra, f'{desc.id}_c{i}')
            res.units.append(Unit(f'{desc.id}#{i}', sub, tree, text, pdl))
        except PdlcReject as e:
            why = _classify(str(e))
            for t in tree:
                if why:
                    res.failed[t] = why
                else:
                    res.unexpected[t] = str(e)[-800:]
    return res
