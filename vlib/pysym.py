"""E-PYSYM: a path-forking bit-vector executor for the Python printed by pdlc.

The generated module is executed natively (real control flow, exceptions,
dataclasses, IntEnum); bytes and integers are proxies:

  SBytes      concrete length, items are python ints or SInt
  SInt        a z3 bit-vector of W bits, signed; a magnitude bound is tracked
              per term and the path is aborted as *inconclusive* if a result
              could leave the W-bit range (python ints are unbounded)
  SBool       z3 Bool; __bool__ forks: the solver says which outcomes are
              feasible under the path condition, a DFS over decision prefixes
              re-executes the function once per feasible path

A symbolic value needed concretely (slice bound, range(), __index__) forks over
its feasible values (bounded by CONCRETIZE_CAP).
"""
from __future__ import annotations

import builtins
import signal
import sys
import time
import types
from typing import Callable, List, Optional

import z3

W = 80                    # width of symbolic integers
CONCRETIZE_CAP = 260      # max distinct values when concretising (covers an 8-bit count field)
MAX_DECISIONS = 4000      # per path
PATH_SECONDS = 20         # watchdog per path


class Abort(BaseException):
    """path cannot be decided by this engine (inconclusive)"""


class PathTimeout(BaseException):
    """watchdog fired: possible non-termination"""


class _Ctx:
    def __init__(self, prefix):
        self.prefix = prefix
        self.idx = 0
        self.taken = []
        self.pending = []
        self.solver = z3.Solver()
        self.solver.set('timeout', 20000)
        self.queries = 0
        self.solver_s = 0.0
        self.pc = []

    def _check(self, *assumptions):
        t = time.time()
        r = self.solver.check(*assumptions)
        self.solver_s += time.time() - t
        self.queries += 1
        if r == z3.unknown:
            raise Abort('solver returned unknown')
        return r == z3.sat

    def assume(self, e):
        self.solver.add(e)
        self.pc.append(e)

    def decide(self, options):
        """options: list of z3 Bool, mutually exclusive, covering.  Returns the
        index taken on this path; schedules the other feasible ones."""
        if self.idx >= MAX_DECISIONS:
            raise Abort('decision budget exhausted')
        if self.idx < len(self.prefix):
            k = self.prefix[self.idx]
            self.assume(options[k])
        else:
            feas = [i for i, o in enumerate(options) if self._check(o)]
            if not feas:
                raise Abort('no feasible option (vacuous path)')
            k = feas[0]
            for j in feas[1:]:
                self.pending.append(self.taken + [j])
            self.assume(options[k])
        self.taken.append(k)
        self.idx += 1
        return k

    def branch(self, c) -> bool:
        c = z3.simplify(c)
        if z3.is_true(c):
            return True
        if z3.is_false(c):
            return False
        return self.decide([c, z3.Not(c)]) == 0

    def concretize(self, e) -> int:
        e = z3.simplify(e)
        if z3.is_bv_value(e):
            return _signed(e.as_long())
        if self.idx < len(self.prefix):
            # replay: the value is stored in the prefix as ('v', value)
            k = self.prefix[self.idx]
            assert isinstance(k, tuple) and k[0] == 'v', k
            self.assume(e == z3.BitVecVal(k[1], W))
            self.taken.append(k)
            self.idx += 1
            return k[1]
        vals = []
        self.solver.push()
        try:
            while self._check():
                v = _signed(self.solver.model().eval(e, model_completion=True).as_long())
                vals.append(v)
                if len(vals) > CONCRETIZE_CAP:
                    raise Abort('too many values to concretise')
                self.solver.add(e != z3.BitVecVal(v, W))
        finally:
            self.solver.pop()
        if not vals:
            raise Abort('no feasible value (vacuous path)')
        vals.sort()
        for v in vals[1:]:
            self.pending.append(self.taken + [('v', v)])
        self.assume(e == z3.BitVecVal(vals[0], W))
        self.taken.append(('v', vals[0]))
        self.idx += 1
        return vals[0]

    def sat(self, e):
        """is path-condition AND e satisfiable?  returns model or None"""
        e = z3.simplify(e) if not isinstance(e, bool) else z3.BoolVal(e)
        if z3.is_false(e):
            return None
        if self._check(e):
            return self.solver.model()
        return None


_ctx: Optional[_Ctx] = None


def ctx() -> _Ctx:
    if _ctx is None:
        raise RuntimeError('no symbolic context')
    return _ctx


def _signed(v):
    return v - (1 << W) if v >> (W - 1) else v


# --------------------------------------------------------------------------- SBool
class SBool:
    __slots__ = ('e',)

    def __init__(self, e):
        self.e = e

    def __bool__(self):
        return ctx().branch(self.e)

    def __and__(self, o):
        return SBool(z3.And(self.e, _b(o)))

    __rand__ = __and__

    def __or__(self, o):
        return SBool(z3.Or(self.e, _b(o)))

    __ror__ = __or__

    def __invert__(self):
        return SBool(z3.Not(self.e))

    def __repr__(self):
        return f'SBool({self.e})'


def _b(x):
    if isinstance(x, SBool):
        return x.e
    return z3.BoolVal(bool(x))


# --------------------------------------------------------------------------- SInt
class SInt:
    __slots__ = ('e', 'bits', 'neg')
    __hash__ = None

    def __init__(self, e, bits, neg=False):
        if bits > W - 2:
            raise Abort(f'integer may exceed {W} bits')
        self.e, self.bits, self.neg = e, bits, neg

    # -- conversion
    def __index__(self):
        return ctx().concretize(self.e)

    def __int__(self):
        return ctx().concretize(self.e)

    def __repr__(self):
        return f'SInt({z3.simplify(self.e)})'

    def __format__(self, spec):
        return repr(self)

    def __bool__(self):
        return ctx().branch(self.e != 0)

    # -- arithmetic
    def _bin(self, o, f, bits, neg):
        oe, ob, on = _lift(o)
        if oe is None:
            return NotImplemented
        return SInt(f(self.e, oe), bits(self.bits, ob), neg(self.neg, on))

    def _rbin(self, o, f, bits, neg):
        oe, ob, on = _lift(o)
        if oe is None:
            return NotImplemented
        return SInt(f(oe, self.e), bits(ob, self.bits), neg(on, self.neg))

    def __add__(self, o):
        return self._bin(o, lambda a, b: a + b, lambda a, b: max(a, b) + 1, lambda a, b: a or b)

    def __radd__(self, o):
        return self._rbin(o, lambda a, b: a + b, lambda a, b: max(a, b) + 1, lambda a, b: a or b)

    def __sub__(self, o):
        return self._bin(o, lambda a, b: a - b, lambda a, b: max(a, b) + 1, lambda a, b: True)

    def __rsub__(self, o):
        return self._rbin(o, lambda a, b: a - b, lambda a, b: max(a, b) + 1, lambda a, b: True)

    def __mul__(self, o):
        return self._bin(o, lambda a, b: a * b, lambda a, b: a + b, lambda a, b: a or b)

    def __rmul__(self, o):
        return self._rbin(o, lambda a, b: a * b, lambda a, b: a + b, lambda a, b: a or b)

    def __neg__(self):
        return SInt(-self.e, self.bits, True)

    def __or__(self, o):
        return self._bin(o, lambda a, b: a | b, max, lambda a, b: a or b)

    def __ror__(self, o):
        return self._rbin(o, lambda a, b: a | b, max, lambda a, b: a or b)

    def __xor__(self, o):
        return self._bin(o, lambda a, b: a ^ b, max, lambda a, b: a or b)

    def __and__(self, o):
        oe, ob, on = _lift(o)
        if oe is None:
            return NotImplemented
        if not on and not self.neg:
            bits = min(self.bits, ob)
        elif not on:
            bits = ob
        elif not self.neg:
            bits = self.bits
        else:
            bits = max(self.bits, ob)
        return SInt(self.e & oe, bits, on and self.neg)

    __rand__ = __and__

    def __lshift__(self, o):
        if isinstance(o, SInt):
            o = o.__index__()
        if o < 0:
            raise ValueError('negative shift count')
        return SInt(self.e << o, self.bits + o, self.neg)

    def __rlshift__(self, o):
        k = self.__index__()
        return o << k

    def __rshift__(self, o):
        if isinstance(o, SInt):
            o = o.__index__()
        if o < 0:
            raise ValueError('negative shift count')
        return SInt(self.e >> o, max(self.bits - o, 0), self.neg)   # arithmetic shift (python semantics)

    def __floordiv__(self, o):
        if isinstance(o, SInt):
            o = o.__index__()
        if o == 0:
            raise ZeroDivisionError('integer division or modulo by zero')
        if o < 0 or self.neg:
            a = self.__index__()
            return a // o
        return SInt(z3.UDiv(self.e, z3.BitVecVal(o, W)), self.bits, False)

    def __rfloordiv__(self, o):
        return o // self.__index__()

    def __mod__(self, o):
        if isinstance(o, SInt):
            o = o.__index__()
        if o == 0:
            raise ZeroDivisionError('integer division or modulo by zero')
        if o < 0 or self.neg:
            a = self.__index__()
            return a % o
        return SInt(z3.URem(self.e, z3.BitVecVal(o, W)), min(self.bits, o.bit_length()), False)

    def __rmod__(self, o):
        return o % self.__index__()

    def __truediv__(self, o):
        return SRatio(self, o)

    # -- comparisons (signed)
    def _cmp(self, o, f):
        oe, _, _ = _lift(o)
        if oe is None:
            return NotImplemented
        return SBool(f(self.e, oe))

    def __eq__(self, o):
        r = self._cmp(o, lambda a, b: a == b)
        return False if r is NotImplemented else r

    def __ne__(self, o):
        r = self._cmp(o, lambda a, b: a != b)
        return True if r is NotImplemented else r

    def __lt__(self, o):
        return self._cmp(o, lambda a, b: a < b)

    def __le__(self, o):
        return self._cmp(o, lambda a, b: a <= b)

    def __gt__(self, o):
        return self._cmp(o, lambda a, b: a > b)

    def __ge__(self, o):
        return self._cmp(o, lambda a, b: a >= b)


class SRatio:
    """result of `a / b` on a symbolic a: only int() of it is supported"""

    def __init__(self, num, den):
        self.num, self.den = num, den

    def floor(self):
        n, d = self.num, self.den
        if isinstance(n, SInt) and n.bits > 52:
            # float division is exact only below 2**53
            if ctx().sat(n.e >= z3.BitVecVal(1 << 53, W)) is not None:
                raise Abort('float division beyond 2**53')
        return n // d


def _lift(o):
    if isinstance(o, SInt):
        return o.e, o.bits, o.neg
    if isinstance(o, bool):
        o = int(o)
    if isinstance(o, int):
        o = int(o)
        if o.bit_length() > W - 2:
            raise Abort(f'constant exceeds {W} bits')
        return z3.BitVecVal(o, W), o.bit_length(), o < 0
    return None, 0, False


def fresh_int(name, width) -> SInt:
    """an unsigned `width`-bit symbolic integer"""
    return SInt(z3.ZeroExt(W - width, z3.BitVec(name, width)), width)


# --------------------------------------------------------------------------- SBytes
class SBytes:
    __slots__ = ('items',)
    __hash__ = None

    def __init__(self, items=()):
        self.items = list(items)

    @staticmethod
    def fresh(prefix, n):
        return SBytes(fresh_int(f'{prefix}{i}', 8) for i in range(n))

    def __len__(self):
        return len(self.items)

    def __bool__(self):
        return len(self.items) > 0

    def __iter__(self):
        return iter(self.items)

    def __getitem__(self, i):
        if isinstance(i, slice):
            def c(x):
                return x.__index__() if isinstance(x, SInt) else x
            return SBytes(self.items[slice(c(i.start), c(i.stop), c(i.step))])
        if isinstance(i, SInt):
            i = i.__index__()
        try:
            return self.items[i]
        except IndexError:
            raise IndexError('index out of range') from None

    def __add__(self, o):
        return SBytes(self.items + list(o))

    def __radd__(self, o):
        return SBytes(list(o) + self.items)

    def __eq__(self, o):
        if not isinstance(o, (SBytes, SByteArray, bytes, bytearray, list)):
            return False
        return seq_eq(self.items, list(o))

    def __ne__(self, o):
        r = self.__eq__(o)
        return ~r if isinstance(r, SBool) else not r

    def __repr__(self):
        return f'SBytes({self.items})'


class SByteArray(SBytes):
    __slots__ = ()

    def __init__(self, init=()):
        if isinstance(init, int):
            init = [0] * init
        super().__init__(())
        self.extend(init)

    @staticmethod
    def _byte(v):
        if isinstance(v, SInt):
            if v.neg or v.bits > 8:
                if (v < 0) | (v > 255):
                    raise ValueError('byte must be in range(0, 256)')
            return v
        if isinstance(v, bool) or not hasattr(v, '__index__'):
            if not isinstance(v, int):
                raise TypeError(f"'{type(v).__name__}' object cannot be interpreted as an integer")
        v = int(v)
        if not 0 <= v <= 255:
            raise ValueError('byte must be in range(0, 256)')
        return v

    def append(self, v):
        self.items.append(self._byte(v))

    def extend(self, it):
        new = [self._byte(v) for v in it]
        self.items.extend(new)

    def __getitem__(self, i):
        r = super().__getitem__(i)
        return r


def seq_eq(a, b):
    if len(a) != len(b):
        return False
    conds = []
    for x, y in zip(a, b):
        r = (x == y)
        if isinstance(r, SBool):
            conds.append(r.e)
        elif not r:
            return False
    if not conds:
        return True
    return SBool(z3.And(*conds))


# --------------------------------------------------------------------------- builtins seen by the generated module
class sym_int:
    """replacement of the module-global name `int`"""

    def __new__(cls, x=0, *a):
        if isinstance(x, SInt):
            return x
        if isinstance(x, SRatio):
            return x.floor()
        return builtins.int(x, *a)

    @staticmethod
    def from_bytes(bs, byteorder='big', *, signed=False):
        assert not signed
        items = list(bs.items if isinstance(bs, SBytes) else bs)
        if all(isinstance(x, int) for x in items):
            return builtins.int.from_bytes(builtins.bytes(items), byteorder)
        if byteorder == 'little':
            items = items[::-1]
        elif byteorder != 'big':
            raise ValueError("byteorder must be either 'little' or 'big'")
        if 8 * len(items) > W - 2:
            raise Abort('from_bytes wider than the integer model')
        parts = []
        for x in items:
            if isinstance(x, SInt):
                parts.append(z3.Extract(7, 0, x.e))
            else:
                parts.append(z3.BitVecVal(x, 8))
        e = parts[0] if len(parts) == 1 else z3.Concat(*parts)
        return SInt(z3.ZeroExt(W - 8 * len(items), e), 8 * len(items))

    @staticmethod
    def to_bytes(v, length=1, byteorder='big', *, signed=False):
        assert not signed
        if isinstance(v, SRatio):
            raise TypeError('float')
        if not isinstance(v, SInt):
            return SBytes(builtins.int.to_bytes(builtins.int(v), length, byteorder))
        if byteorder not in ('little', 'big'):
            raise ValueError("byteorder must be either 'little' or 'big'")
        if v.neg:
            if v < 0:
                raise OverflowError("can't convert negative int to unsigned")
        if v.bits > 8 * length:
            if v >= (1 << (8 * length)):
                raise OverflowError('int too big to convert')
        out = [SInt(z3.ZeroExt(W - 8, z3.Extract(8 * i + 7, 8 * i, v.e)), 8) for i in range(length)]
        if byteorder == 'big':
            out.reverse()
        return SBytes(out)


def sym_bytes(x=()):
    if isinstance(x, SBytes):
        return SBytes(x.items)
    if isinstance(x, int):
        return SBytes([0] * x)
    return SBytes(SByteArray(x).items)


def sym_range(*a):
    a = [x.__index__() if isinstance(x, SInt) else x for x in a]
    return builtins.range(*a)


def sym_isinstance_int(x):
    return isinstance(x, (int, SInt))


# --------------------------------------------------------------------------- module loading
_modcount = 0


def load_module(text: str, pre: dict = None, symbolic=True):
    """exec the generated module text; then swap its builtins for proxies"""
    global _modcount
    _modcount += 1
    name = f'_pdlgen_{_modcount}'
    mod = types.ModuleType(name)
    sys.modules[name] = mod
    if pre:
        mod.__dict__.update(pre)
    exec(compile(text, name, 'exec'), mod.__dict__)
    if symbolic:
        mod.__dict__.update({'int': sym_int, 'bytes': sym_bytes, 'bytearray': SByteArray,
                             'range': sym_range})
    return mod


def unload_module(mod):
    sys.modules.pop(mod.__name__, None)


# --------------------------------------------------------------------------- exploration
class PathResult:
    __slots__ = ('status', 'value', 'decisions', 'queries', 'solver_s')

    def __init__(self, status, value, c):
        self.status, self.value = status, value
        self.decisions = list(c.taken)
        self.queries, self.solver_s = c.queries, c.solver_s


def _on_alarm(signum, frame):
    raise PathTimeout()


def explore(fn: Callable[[_Ctx], object], max_paths=20000, deadline=None) -> List[PathResult]:
    """run fn once per feasible path.  fn(ctx) returns any value (recorded);
    Abort -> status 'inconclusive'; PathTimeout -> 'timeout'."""
    global _ctx
    work = [[]]
    results = []
    old = signal.signal(signal.SIGALRM, _on_alarm)
    try:
        while work:
            if len(results) >= max_paths or (deadline and time.time() > deadline):
                c = _Ctx([])
                results.append(PathResult('inconclusive', 'path/time budget exhausted', c))
                break
            prefix = work.pop()
            c = _Ctx(prefix)
            _ctx = c
            signal.setitimer(signal.ITIMER_REAL, PATH_SECONDS)
            try:
                v = fn(c)
                signal.setitimer(signal.ITIMER_REAL, 0)
                results.append(PathResult('done', v, c))
            except Abort as e:
                signal.setitimer(signal.ITIMER_REAL, 0)
                results.append(PathResult('inconclusive', str(e), c))
            except PathTimeout:
                results.append(PathResult('timeout', None, c))
            finally:
                signal.setitimer(signal.ITIMER_REAL, 0)
                _ctx = None
            work.extend(c.pending)
    finally:
        signal.signal(signal.SIGALRM, old)
    return results


def model_bytes(model, prefix, n) -> bytes:
    out = []
    for i in range(n):
        v = model.eval(z3.BitVec(f'{prefix}{i}', 8), model_completion=True)
        out.append(v.as_long())
    return bytes(out)


def model_int(model, name, width) -> int:
    return model.eval(z3.BitVec(name, width), model_completion=True).as_long()
