"""Native replay of E-KANI counterexamples against the real build of the generated Rust
(dev profile with overflow checks AND release profile), under catch_unwind."""
from __future__ import annotations

import hashlib
import json
import os
import re
import shutil
import subprocess
from typing import Dict, List, Optional

from .build import REPO, WORK, TARGET, ENV, run, BuildError
from .common import log

CARGO = '''[package]
name = "pdlreplay"
version = "0.0.0"
edition = "2021"
publish = false

[dependencies]
bytes = "1"
thiserror = "1"
pdl-runtime = { path = "%s/pdl-runtime" }

[profile.dev]
overflow-checks = true
debug = false

[profile.release]
overflow-checks = false

[workspace]
''' % REPO

MAIN_HEAD = '''#![allow(warnings)]
mod support {
%s
}
use support::*;
mod g {
%s
%s
}
use g::*;
use pdl_runtime::{DecodeError, EncodeError, Packet};

fn hex(b: &[u8]) -> String { b.iter().map(|x| format!("{:02x}", x)).collect() }
fn unhex(s: &str) -> Vec<u8> { (0..s.len() / 2).map(|i| u8::from_str_radix(&s[2 * i..2 * i + 2], 16).unwrap()).collect() }
fn dvariant(e: &DecodeError) -> &'static str {
    match e {
        DecodeError::UnwrapError => "UnwrapError",
        DecodeError::FixedValueError { .. } => "FixedValueError",
        DecodeError::LengthError { .. } => "LengthError",
        DecodeError::ArraySizeError { .. } => "ArraySizeError",
        DecodeError::EnumValueError { .. } => "EnumValueError",
        DecodeError::ConstraintValueError { .. } => "ConstraintValueError",
        DecodeError::TrailingBytesError => "TrailingBytesError",
        DecodeError::TrailingBytesInArray { .. } => "TrailingBytesInArray",
    }
}
fn evariant(e: &EncodeError) -> &'static str {
    match e {
        EncodeError::SizeOverflow { .. } => "SizeOverflow",
        EncodeError::CountOverflow { .. } => "CountOverflow",
        EncodeError::InvalidScalarValue { .. } => "InvalidScalarValue",
        EncodeError::InvalidArrayElementSize { .. } => "InvalidArrayElementSize",
        EncodeError::InconsistentConditionValue { .. } => "InconsistentConditionValue",
    }
}
fn reenc<T: Packet>(v: &T) -> String {
    match v.encode_to_vec() { Ok(x) => format!("{} len={}", hex(&x), v.encoded_len()), Err(e) => format!("ENCERR:{}", evariant(&e)) }
}
fn dec<T: Packet + std::fmt::Debug>(op: &str, b: &[u8]) -> String {
    match op {
        "decode" => match T::decode(b) {
            Ok((v, rest)) => {
                let suffix = rest.len() <= b.len() && rest.as_ptr() == b[b.len() - rest.len()..].as_ptr();
                format!("OK used={} suffix={} reenc={} dbg={:?}", b.len() - rest.len(), suffix, reenc(&v), v)
            }
            Err(e) => format!("ERR {}", dvariant(&e)),
        },
        "decode_full" => match T::decode_full(b) {
            Ok(v) => format!("OK used={} suffix=true reenc={} dbg={:?}", b.len(), reenc(&v), v),
            Err(e) => format!("ERR {}", dvariant(&e)),
        },
        "decode_mut" => {
            let mut s: &[u8] = b;
            match T::decode_mut(&mut s) {
                Ok(v) => {
                    let suffix = s.len() <= b.len() && s.as_ptr() == b[b.len() - s.len()..].as_ptr();
                    format!("OK used={} suffix={} reenc={} dbg={:?}", b.len() - s.len(), suffix, reenc(&v), v)
                }
                Err(e) => format!("ERR {} untouched={}", dvariant(&e), s.len() == b.len() && (b.is_empty() || s.as_ptr() == b.as_ptr())),
            }
        }
        _ => "BADOP".to_string(),
    }
}
'''


class NativeRunner:
    """one compiled runner per generated module text"""

    def __init__(self, gen_text: str, types: List[str], extra_ops: str = '', extra_arms: str = '', inner: str = ''):
        h = hashlib.sha1((gen_text + extra_ops + extra_arms + inner).encode()).hexdigest()[:12]
        self.dir = os.path.join(WORK, 'replay', h)
        self.target = os.path.join(TARGET, 'replay')
        src = os.path.join(self.dir, 'src')
        os.makedirs(src, exist_ok=True)
        with open(os.path.join(self.dir, 'Cargo.toml'), 'w') as f:
            f.write(CARGO)
        shutil.copy(os.path.join(REPO, 'Cargo.lock'), os.path.join(self.dir, 'Cargo.lock'))
        gen_text = re.sub(r'(?m)^///.*$', '', gen_text)
        arms = '\n'.join(f'        ("{t}", _) => dec::<{t}>(op, b),' for t in types)
        from .build import VERIF
        support = open(os.path.join(VERIF, 'kani_support', 'support.rs')).read().replace('#![allow(dead_code, unused)]', '')
        main = MAIN_HEAD % (support, gen_text, inner) + extra_ops + '''
fn run(ty: &str, op: &str, b: &[u8], words: &[u64]) -> String {
    match (ty, op) {
%s
%s
        _ => "BADTYPE".to_string(),
    }
}
fn main() {
    let args: Vec<String> = std::env::args().collect();
    let b = unhex(&args[3]);
    let words: Vec<u64> = if args.len() > 4 { args[4].split(',').filter(|s| !s.is_empty()).map(|s| s.parse().unwrap()).collect() } else { vec![] };
    std::panic::set_hook(Box::new(|_| {}));
    let r = std::panic::catch_unwind(|| run(&args[1], &args[2], &b, &words));
    match r {
        Ok(s) => println!("{}", s),
        Err(p) => {
            let msg = if let Some(s) = p.downcast_ref::<&str>() { s.to_string() } else if let Some(s) = p.downcast_ref::<String>() { s.clone() } else { "?".to_string() };
            println!("PANIC {}", msg)
        }
    }
}
''' % (extra_arms, arms)
        with open(os.path.join(src, 'main.rs'), 'w') as f:
            f.write(main)
        self.bins: Dict[str, str] = {}

    def build(self, profile: str) -> str:
        if profile in self.bins:
            return self.bins[profile]
        cmd = ['cargo', 'build', '--offline', '--quiet', '--target-dir', self.target]
        if profile == 'release':
            cmd.append('--release')
        run(cmd, cwd=self.dir, timeout=900)
        exe = os.path.join(self.target, 'release' if profile == 'release' else 'debug', 'pdlreplay')
        # keep a private copy: the shared target dir is reused by the next runner
        mine = os.path.join(self.dir, f'runner_{profile}')
        shutil.copy(exe, mine)
        self.bins[profile] = mine
        return mine

    def run(self, profile: str, ty: str, op: str, data: bytes, words: Optional[List[int]] = None, timeout=20) -> str:
        exe = self.build(profile)
        args = [exe, ty, op, data.hex() if data else '']
        if words is not None:
            args.append(','.join(str(x) for x in words))
        try:
            p = subprocess.run(args, capture_output=True, text=True, timeout=timeout)
        except subprocess.TimeoutExpired:
            return 'HANG'
        out = p.stdout.strip().splitlines()
        if not out:
            return f'NOOUTPUT rc={p.returncode} {p.stderr[-200:]}'
        return out[-1]

    def cleanup(self):
        shutil.rmtree(self.dir, ignore_errors=True)
