"""C05 — the Rust encoder never truncates: out-of-range is an error, length as promised."""
from __future__ import annotations

from . import c03

PROP = 'C05'
QUOTAS = {
    'quick': {'cheap': 1, 'medium': 2, 'heavy': 0, 'F1:cheap': 8, 'F2:medium': 8, 'F5:medium': 3, 'R:cheap': 3, 'R:medium': 4},
    'thorough': {'cheap': 150, 'medium': 90, 'heavy': 16, 'F1:cheap': 500, 'F2:medium': 140, 'R:cheap': 60,
                 'R:medium': 70, 'R:heavy': 16},
}


def main(tier, seed):
    return c03.run(PROP, 'c05', tier, seed, QUOTAS[tier], ('C05:',), ('encode',), level='model_checking',
                   default_checks_are_mine=True,
                   extra_cov={'functions_encoded': ['<T>::encode', '<T>::encoded_len', 'range_check / SizeOverflow / CountOverflow / '
                                                    'InvalidArrayElementSize / InconsistentConditionValue guards (generated)',
                                                    'rf::ref_wf_<T> (reference well-formedness)'],
                              'not_decided': 'overflow of size/count fields wider than what <= K elements can reach (only the in-range '
                                             'direction is decided for those); see thorough tier windowed-length harnesses'})
