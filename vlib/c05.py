"""C05 — the Rust encoder never truncates: out-of-range is an error, length as promised."""
from __future__ import annotations

import re

from . import c03

PROP = 'C05'
QUOTAS = {
    'quick': {'cheap': 1, 'medium': 2, 'heavy': 0, 'F1:cheap': 8, 'F2:medium': 8, 'F5:medium': 3, 'R:cheap': 3, 'R:medium': 4},
    'thorough': {'cheap': 150, 'medium': 90, 'heavy': 16, 'F1:cheap': 500, 'F2:medium': 140, 'R:cheap': 60,
                 'R:medium': 70, 'R:heavy': 16},
}


def main(tier, seed):
    return c03.run(PROP, 'c05', tier, seed, QUOTAS[tier], ('C05:',), ('encode',), level='model_checking',
                   default_checks_are_mine=True, post=windowed if tier == 'thorough' else None,
                   extra_cov={'functions_encoded': ['<T>::encode', '<T>::encoded_len', 'range_check / SizeOverflow / CountOverflow / '
                                                    'InvalidArrayElementSize / InconsistentConditionValue guards (generated)',
                                                    'rf::ref_wf_<T> (reference well-formedness)'],
                              'not_decided': 'overflow of size/count fields wider than what <= K elements can reach (only the in-range '
                                             'direction is decided for those); see thorough tier windowed-length harnesses'})


# --------------------------------------------------------------------------- thorough tier: windowed lengths
# Overflow of an 8-bit size/count field cannot be reached with K <= 3 elements.  The array is built as
# vec![0; n] with n symbolic in a window around the limit (element content is irrelevant to the overflow
# clause: a recorded cut), so the solver still decides every length in the window.
WINDOW = '''
    #[kani::proof]
    #[kani::unwind(%(unwind)d)]
    fn c05w_%(t)s() {
        let n: usize = kani::any();
        kani::assume(n >= %(lo)d && n <= %(hi)d);
        let v = %(t)s { x: vec![0; n] };
        let mut out = ArrBuf::<%(cap)d>::new();
        match v.encode(&mut out) {
            Ok(()) => {
                assert!(n * %(es)d <= %(limit)d * %(unit)d, "C05: encode succeeds although the array is larger than its size/count field can express");
                assert!(out.len == 1 + n * %(es)d && out.buf[0] as usize == n * %(per)d, "C05: written length or size/count octet is wrong");
                kani::cover!(true, "accepting path");
            }
            Err(e) => {
                assert!(n * %(es)d > %(limit)d * %(unit)d, "C05: encode fails although the array fits its size/count field");
                assert!(matches!(e, EncodeError::%(variant)s { .. }), "C05: overflow reported with the wrong EncodeError variant");
            }
        }
        std::mem::forget(v);
    }
'''


# element-size field: one element whose own octet length sweeps the window around the 8-bit limit.
# El = { _count_(d): 8, d: 8[] } has 1 + n octets; EW = { _elementsize_(x): 8, x: El[] }.
WINDOW_EW = """
    #[kani::proof]
    #[kani::unwind(%(unwind)d)]
    fn c05w_EW() {
        let n: usize = kani::any();
        kani::assume(n >= %(lo)d && n <= %(hi)d);
        let v = EW { x: vec![El { d: vec![0; n] }] };
        let mut out = ArrBuf::<%(cap)d>::new();
        match v.encode(&mut out) {
            Ok(()) => {
                assert!(1 + n <= 255, "C05: encode succeeds although the element is larger than its element-size field can express");
                assert!(out.len == 2 + n && out.buf[0] as usize == 1 + n && out.buf[1] as usize == n, "C05: written length, element-size octet or count octet is wrong");
                assert!(v.encoded_len() == out.len, "C05: encoded_len differs from the octets written");
                kani::cover!(true, "accepting path");
            }
            Err(e) => {
                assert!(1 + n > 255, "C05: encode fails although the element fits its element-size field");
                assert!(matches!(e, EncodeError::SizeOverflow { .. }), "C05: overflow reported with the wrong EncodeError variant");
            }
        }
        std::mem::forget(v);
    }
"""

# (type, lo, native constructor, octets of the sized thing as a function of n, expected variant)
WINDOWS = (('CW', 253, 'CW { x: vec![0; n] }', lambda n: n, 'CountOverflow'),
           ('SW', 125, 'SW { x: vec![0; n] }', lambda n: 2 * n, 'SizeOverflow'),
           ('EW', 252, 'EW { x: vec![El { d: vec![0; n] }] }', lambda n: 1 + n, 'SizeOverflow'))


def windowed(out, cov, only=None):
    import os
    from . import build, kanirun, model as M
    from .rsreplay import NativeRunner
    f = M.File('little', [M.packet('CW', [M.count('x', 8), M.array('x', width=8)]),
                          M.packet('SW', [M.size('x', 8), M.array('x', width=16)]),
                          M.struct('El', [M.count('d', 8), M.array('d', width=8)]),
                          M.packet('EW', [M.elemsize('x', 8), M.array('x', type_id='El')])])
    pdl = M.to_pdl(f)
    text = build.pdlc(pdl, 'rust', (), 'c05_window')
    hs = ''
    if not only or 'CW' in only:
        hs += WINDOW % dict(t='CW', lo=253, hi=258, unwind=261, cap=300, es=1, limit=255, unit=1, per=1, variant='CountOverflow')
    if not only or 'SW' in only:
        hs += WINDOW % dict(t='SW', lo=125, hi=130, unwind=133, cap=300, es=2, limit=255, unit=1, per=2, variant='SizeOverflow')
    if not only or 'EW' in only:
        hs += WINDOW_EW % dict(lo=252, hi=257, unwind=260, cap=300)
    mod = text + '\n#[cfg(kani)]\nmod h {\n    use super::*;\n    use crate::support::*;\n' + hs + '}\n'
    crate = os.path.join(build.WORK, 'kani', 'C05', 'window')
    kanirun.write_crate(crate, {'m_window': mod})
    res, log_text = kanirun.cargo_kani(crate, kanirun.shard_target(0), jobs=3, harness_timeout=2400, total_timeout=6000)
    wcov = {'harnesses': [], 'note': 'vec![0; n], n symbolic in a 6-value window around the 8-bit limit; element content fixed to 0 (cut); '
                                     'EW: one element El{d: vec![0; n]} of 1+n octets behind an 8-bit _elementsize_ field'}
    runner = None
    for t, lo, ctor, octets, variant in WINDOWS:
        if only and t not in only:
            continue
        r = res.get(f'm_window::c05w_{t}')
        if r is None:
            out.inconclusive_item(f'windowed harness c05w_{t}: no result')
            continue
        wcov['harnesses'].append({'harness': f'c05w_{t}', 'verdict': r.status, 'cbmc_time_s': r.time_s, 'failed_checks': r.failed_checks[:3]})
        if r.status == 'success' and not r.unsat_covers:
            continue
        if r.status != 'failed':
            out.undecided_item(f'windowed harness c05w_{t}: {r.status}')
            continue
        # replay: every length of the window natively
        if runner is None:
            arms = '\n'.join(f'        ("{x}", "win") => {{ let n = words[0] as usize; let v = {c}; '
                             f'match v.encode_to_vec() {{ Ok(b) => format!("OK len={{}} first={{}} elen={{}}", b.len(), b[0], v.encoded_len()), Err(e) => format!("ERR {{}}", evariant(&e)) }} }}'
                             for x, _, c, _, _ in WINDOWS)
            runner = NativeRunner(text, ['CW', 'SW', 'EW'], '', arms)
        bad, obs = False, {}
        for n in range(lo, lo + 6):
            o = runner.run('release', t, 'win', b'', [n])
            obs[str(n)] = o
            fits = octets(n) <= 255
            if o.startswith('OK') != fits or (not fits and variant not in o):
                bad = True
            if fits and o.startswith('OK'):
                m = re.match(r'OK len=(\d+) first=(\d+) elen=(\d+)', o)
                head = {'CW': n, 'SW': 2 * n, 'EW': 1 + n}[t]
                if not m or int(m.group(1)) != int(m.group(3)) or int(m.group(2)) != head:
                    bad = True
        sig = {'backend': 'rust', 'kind': 'c05w', 'type': t, 'checks': ' | '.join(sorted(set(r.failed_checks)))}
        rec = {'property': PROP, 'engine': 'E-KANI', 'harness': f'c05w_{t}', 'pdl': pdl, 'failed_checks': r.failed_checks, 'native': obs, 'sig': sig}
        out.violation(sig, rec, reproduced=bad)
    if runner:
        runner.cleanup()
    cov['windowed_lengths'] = wcov
