"""C16 — static size annotations are sound.

(1) the schema driver (linked against /repo's pdl-compiler, public API only) dumps
    Schema::{field,decl,parent,payload,total,padded}_size for every description of the corpus;
(2) table comparison with our own size classification of the same description
    (deterministic, not a solver query; reported separately in the evidence);
(3) E-KANI: for every selected type whose total size is Static(n): for all values the real
    encoder writes exactly n/8 octets and decode_full accepts only inputs of n/8 octets."""
from __future__ import annotations

import hashlib
import json
import os
import time
from typing import Dict, List, Optional, Tuple

from . import build, corpus, kcheck, model as M, venc
from .common import Outcome, write_evidence, log
from .ref import Model, Unsupported

PROP = 'C16'
QUOTAS = {
    'quick': {'cheap': 2, 'medium': 2, 'heavy': 0, 'F1:cheap': 8, 'F2:medium': 5, 'F7:cheap': 3, 'R:cheap': 4, 'R:medium': 3},
    'thorough': {'cheap': 100, 'medium': 60, 'heavy': 4, 'F1:cheap': 300, 'F2:medium': 80, 'R:cheap': 60, 'R:medium': 40},
}


# --------------------------------------------------------------------------- our own classification
def cls_decl(mdl: Model, name, seen=()) -> Tuple[str, Optional[int]]:
    """('static', bits) | ('dynamic', None) | ('unknown', None) for the total size of a declaration"""
    d = mdl.decls[name]
    if d.kind in ('enum', 'checksum'):
        return ('static', d.width)
    if d.kind == 'custom_field':
        return ('static', d.width) if d.width is not None else ('dynamic', None)
    if name in seen:
        return ('unknown', None)
    parts = []
    for n in mdl.chain(name):
        for i, f in enumerate(mdl.fields[n]):
            if f.kind in ('payload', 'body') and n != name:
                continue          # replaced by the child's fields
            parts.append(cls_field(mdl, n, i, seen + (name,), padded=True))
    return combine(parts)


def combine(parts):
    if any(p[0] == 'unknown' for p in parts):
        return ('unknown', None)
    if any(p[0] == 'dynamic' for p in parts):
        return ('dynamic', None)
    return ('static', sum(p[1] for p in parts))


def cls_field(mdl: Model, n, i, seen=(), padded=False):
    fs = mdl.fields[n]
    f = fs[i]
    k = f.kind
    if f.cond is not None:
        return ('dynamic', None)
    if k in ('scalar', 'size', 'count', 'elemsize', 'reserved', 'fixed_scalar'):
        return ('static', f.width)
    if k == 'fixed_enum':
        return ('static', mdl.decls[f.type_id].width)
    if k in ('padding', 'checksum_start'):
        return ('static', 0)
    if k == 'typedef':
        return cls_decl(mdl, f.type_id, seen)
    if k in ('payload', 'body'):
        tgt = '_payload_' if k == 'payload' else '_body_'
        return ('dynamic', None) if any(g.kind == 'size' and g.target == tgt for g in fs) else ('unknown', None)
    if k == 'array':
        nxt = fs[i + 1] if i + 1 < len(fs) else None
        if padded and nxt is not None and nxt.kind == 'padding':
            return ('static', 8 * nxt.value)
        if f.count is not None:
            if f.width is not None:
                return ('static', f.width * f.count)
            e = cls_decl(mdl, f.type_id, seen)
            return ('static', e[1] * f.count) if e[0] == 'static' else e
        if any(g.kind in ('size', 'count') and g.target == f.name for g in fs):
            return ('dynamic', None)
        return ('unknown', None)
    raise Unsupported(k)


def norm(v):
    if isinstance(v, int):
        return ('static', v)
    return (v, None)


def compare_tables(descs, out: Outcome, stats):
    os.makedirs(os.path.join(build.WORK, 'c16'), exist_ok=True)
    paths = {}
    for d in descs:
        text = M.to_pdl(d.file)
        p = os.path.join(build.WORK, 'c16', f'{d.id}_{hashlib.sha1(text.encode()).hexdigest()[:10]}.pdl')
        with open(p, 'w') as f:
            f.write(text)
        paths[p] = d
    res = build.schema_sizes(list(paths))
    static_total: Dict[Tuple[str, str], int] = {}
    for p, d in paths.items():
        j = res.get(p)
        if j is None or 'error' in j:
            stats['driver_errors'].append(f'{d.id}: {j.get("error") if j else "no output"}')
            continue
        stats['programs'] += 1
        try:
            mdl = Model(d.file)
        except Unsupported:
            continue
        for dj in j['decls']:
            name = dj['id']
            if name not in mdl.fields:
                continue
            stats['decls'] += 1
            try:
                mine = cls_decl(mdl, name)
            except Unsupported:
                continue
            theirs = norm(dj['total_size'])
            _cmp(out, stats, d, name, 'total_size', theirs, mine)
            if theirs[0] == 'static':
                static_total[(d.id, name)] = theirs[1]
            mf = mdl.fields[name]
            if len(mf) != len(dj['fields']):
                stats['shape_mismatch'].append(f'{d.id}/{name}: {len(mf)} fields in our model, {len(dj["fields"])} in the schema')
                out.inconclusive_item(f'{d.id}/{name}: field lists differ between our model and the analyzed declaration')
                continue
            for i, fj in enumerate(dj['fields']):
                stats['fields'] += 1
                try:
                    mine_f = cls_field(mdl, name, i)
                except Unsupported:
                    continue
                _cmp(out, stats, d, f'{name}.{fj["kind"]}:{fj["id"] or i}', 'field_size', norm(fj['size']), mine_f)
                nxt = mf[i + 1] if i + 1 < len(mf) else None
                want_pad = 8 * nxt.value if nxt is not None and nxt.kind == 'padding' else None
                if fj['padded'] != want_pad:
                    _report(out, stats, d, f'{name}.{fj["id"]}', 'padded_size', fj['padded'], want_pad, 'unsound')
    return static_total


def _cmp(out, stats, d, what, query, theirs, mine):
    if theirs == mine:
        stats['agree'] += 1
        return
    if theirs[0] == 'static':
        _report(out, stats, d, what, query, theirs, mine, 'unsound')       # a constant size that is not the real size
    elif mine[0] == 'static':
        stats['imprecise'].append(f'{d.id}/{what}: schema says {theirs[0]}, our model says static {mine[1]}')
    else:
        _report(out, stats, d, what, query, theirs, mine, 'classification')


def _report(out, stats, d, what, query, theirs, mine, kind):
    stats['disagree'] += 1
    rec = {'property': PROP, 'engine': 'table', 'desc': d.id, 'what': what, 'query': query, 'schema_says': theirs,
           'our_model_says': mine, 'kind': kind, 'pdl': M.to_pdl(d.file),
           'sig': {'kind': 'schema_' + kind, 'query': query}}
    out.violation(rec['sig'], rec, reproduced=True)   # deterministic: the driver output is the reproduction


def main(tier, seed):
    os.environ['VERIF_TIER_EFF'] = tier
    t0 = time.time()
    out = Outcome(PROP)
    descs = corpus.corpus(tier, seed, backend=None)
    descs += corpus.repo_descs('rust') + corpus.repo_descs('python')
    stats = {'programs': 0, 'decls': 0, 'fields': 0, 'agree': 0, 'disagree': 0, 'imprecise': [], 'driver_errors': [],
             'shape_mismatch': []}
    static_total = compare_tables(descs, out, stats)
    log(f'[C16] tables: {stats["programs"]} descriptions, {stats["decls"]} declarations, {stats["fields"]} fields, '
        f'{stats["disagree"]} disagreements')

    def want(mdl, u, t, d):
        base = u.desc_id.split('#')[0]
        return ['c16'] if (base, t) in static_total else []
    items, info = kcheck.gather(tier, seed, want, QUOTAS[tier], out=out)
    for it in items:
        it.K = 2
        it.static_octets = static_total[(it.unit.desc_id.split('#')[0], it.type)] // 8
    log(f'[C16] {len(items)} harnesses for types with a Static total size')
    cov = kcheck.run_and_judge(PROP, tier, seed, items, info, out, venc.make_replay(('encode',)), venc.value_arms,
                               own_prefixes=('C16:',), extract=venc.extract_words, inner_fn=venc.rf_text)
    # the size lattice kernel
    from . import c12
    kcov = c12.run_kernels(PROP, 'c16_', out, lambda k, mine: (False, {'note': 'kernel counterexample: see kani.log'}))
    cov['size_lattice_kernel'] = kcov
    stats['imprecise'] = stats['imprecise'][:20]
    cov['table_comparison'] = stats
    cov['functions_encoded'] = ['analyzer::Schema::new + field_size/decl_size/parent_size/payload_size/total_size/padded_size (run concretely by the driver)',
                                '<T>::encode / decode_full (generated) for every selected type with Static total size']
    cov['evaluations'] = cov['evaluations'] + stats['decls'] + stats['fields']
    write_evidence(PROP, tier, seed, 'model_checking', cov,
                   ['the Schema is computed by the real analyzer run concretely on each description; the solver decides the '
                    'value/input quantifier of "every encoding occupies exactly n bits"',
                    'usize overflow of Static sizes (descriptions larger than 2^64 bits) is outside the claim'],
                   time.time() - t0, len(out.violations))
    return out.finish()
