"""C15 — enum conversions are exact over the entire value space.
Rust: E-KANI over the generated TryFrom/From (whole backing integer, no bound).
Python: E-PYSYM over the generated from_int (every w-bit integer).
C++: E-LLIR over IsValid<Enum> lowered by clang (see vlib/llir.py)."""
from __future__ import annotations

import os
import time
from concurrent.futures import ThreadPoolExecutor

import z3

from . import corpus, gen, harness, kanirun, kcheck, model as M, pysym as S, pycheck
from .build import build_pdlc, WORK
from .common import Outcome, write_evidence, log, write_replay
from .kcheck import KItem
from .ref import Model
from .rsreplay import NativeRunner

PROP = 'C15'


def enum_descs(tier, seed, backend):
    ds = corpus.corpus(tier, seed, families=['F6', 'R'], backend=backend)
    return ds


# --------------------------------------------------------------------------- rust leg
def rust_leg(tier, seed, out: Outcome):
    descs = enum_descs(tier, seed, 'rust')
    if tier == 'quick':
        import random
        rnd = random.Random(seed)
        f6 = [d for d in descs if d.family == 'F6']
        keep = [d for d in f6 if any(d.id.startswith(f'f6_w{w}_') for w in (1, 3, 8, 9, 24, 40, 64))]
        rest = [d for d in f6 if d not in keep]
        descs = keep + rnd.sample(rest, min(4, len(rest))) + [d for d in descs if d.family == 'R'][:1]
    with ThreadPoolExecutor(16) as ex:
        gens = list(ex.map(lambda d: gen.generate(d, 'rust'), descs))
    items = []
    for d, g in zip(descs, gens):
        for t, why in g.unexpected.items():
            out.inconclusive_item(f'{d.id}/{t}: pdlc failed to generate rust: {why[-200:]}')
        for u in g.units:
            mdl = Model(u.file)
            for e in [x.name for x in u.file.decls if x.kind == 'enum']:
                items.append(KItem(u, mdl, e, 'c15', 1, 'cheap', d.family))
    # several enums of a description share one module
    seen = set()
    uniq = []
    for it in items:
        if it.key not in seen:
            seen.add(it.key)
            uniq.append(it)
    return uniq


def enum_arms(items):
    arms = []
    seen = set()
    for it in items:
        e = it.type
        if e in seen:
            continue
        seen.add(e)
        bt = harness.backing(it.mdl.decls[e].width)
        arms.append(f'''        ("{e}", "enum") => {{ let x = words[0] as u{bt}; match {e}::try_from(x) {{ Ok(v) => format!("OK back={{}} dbg={{:?}}", u{bt}::from(v) as u64, v), Err(r) => format!("ERR {{}}", r as u64) }} }}''')
    return '\n'.join(arms)


def replay_rust(runner: NativeRunner, it: KItem, words):
    e = it.type
    d = it.mdl.decls[e]
    bt = harness.backing(d.width)
    x = words[0] & ((1 << bt) - 1)
    member = bool(it.mdl.enum_member(e, x))
    expect_ok = x < (1 << d.width) and (member or it.mdl.enum_is_open(e))
    obs, bad = {'x': x, 'expect_ok': expect_ok}, False
    for profile in ('dev', 'release'):
        r = runner.run(profile, e, 'enum', b'', [x])
        obs[profile] = r[:200]
        if r.startswith('OK'):
            back = int(r.split('back=')[1].split()[0])
            if not expect_ok or back != x:
                bad = True
            dbg = r.split('dbg=')[1]
            for t in d.tags:
                if isinstance(t, M.TagValue) and t.value == x and harness.camel(t.name) not in dbg:
                    bad = True
        elif r.startswith('ERR'):
            if expect_ok or int(r.split()[1]) != x:
                bad = True
        else:
            bad = True
    return bad, obs


# --------------------------------------------------------------------------- python leg
def python_leg(tier, seed, out: Outcome):
    descs = enum_descs(tier, seed, 'python')
    stats = {'enums': 0, 'paths': 0, 'queries': 0, 'programs': 0, 'samples': []}
    build_pdlc()
    for d in descs:
        g = gen.generate(d, 'python')
        for u in g.units:
            mdl = Model(u.file)
            enums = [x for x in u.file.decls if x.kind == 'enum']
            if not enums:
                continue
            stats['programs'] += 1
            mod = S.load_module(u.text, pycheck.custom_standins(mdl))
            try:
                for e in enums:
                    stats['enums'] += 1
                    res = S.explore(lambda c, e=e: _py_enum_path(c, mod, mdl, e))
                    for r in res:
                        stats['paths'] += 1
                        stats['queries'] += r.queries
                        if r.status != 'done':
                            out.inconclusive_item(f'{u.desc_id}/{e.name} from_int: {r.status} {r.value}')
                        elif r.value is not None:
                            rec = {'property': PROP, 'engine': 'E-PYSYM', 'backend': 'python', 'desc': u.desc_id,
                                   'type': e.name, 'kind': 'enum_from_int', 'detail': r.value['detail'], 'x': r.value['x'],
                                   'pdl': u.pdl, 'sig': {'backend': 'python', 'kind': 'enum_from_int', 'what': r.value['what']}}
                            ok = _py_enum_replay(u, mdl, e, r.value['x'], r.value['what'])
                            out.violation(rec['sig'], rec, reproduced=ok)
                    if len(stats['samples']) < 3:
                        stats['samples'].append({'description': u.desc_id, 'enum': e.name, 'width': e.width, 'paths': len(res)})
            finally:
                S.unload_module(mod)
    return stats


def _py_expect(mdl, e, v):
    """(kind, ...) for a concrete or symbolic v: member / passthrough / reject decided by forking"""
    top = [t.value for t in e.tags if isinstance(t, M.TagValue)]
    is_top = pycheck._conj([False]) if not top else None
    return top


def _py_enum_path(c, mod, mdl, e):
    v = S.fresh_int('x', e.width)
    cls = getattr(mod, e.name)
    top = [t.value for t in e.tags if isinstance(t, M.TagValue)]
    try:
        r = cls.from_int(v)
        got = ('ok', r)
    except mod.EnumValueError:
        got = ('reject', None)
    except Exception as ex:  # noqa
        m = c.sat(True)
        return {'what': 'crash', 'detail': f'from_int raised {type(ex).__name__}: {ex}', 'x': S.model_int(m, 'x', e.width)}
    valid = mdl.enum_valid(e.name, v)
    if got[0] == 'reject':
        m = c.sat(valid.e if isinstance(valid, S.SBool) else z3.BoolVal(bool(valid)))
        if m is not None:
            return {'what': 'rejects_declared', 'detail': 'from_int rejects a declared value', 'x': S.model_int(m, 'x', e.width)}
        return None
    m = c.sat(z3.Not(valid.e) if isinstance(valid, S.SBool) else z3.BoolVal(not valid))
    if m is not None:
        return {'what': 'accepts_undeclared', 'detail': 'from_int accepts an undeclared value of a closed enum',
                'x': S.model_int(m, 'x', e.width)}
    r = got[1]
    same = (r == v)
    m = c.sat(z3.Not(same.e) if isinstance(same, S.SBool) else z3.BoolVal(not same))
    if m is not None:
        return {'what': 'value_changed', 'detail': 'from_int returns a different integer', 'x': S.model_int(m, 'x', e.width)}
    is_member = isinstance(r, cls)
    in_top = pycheck._conj([])  # True
    cond = None
    for tv in top:
        t = (v == tv)
        cond = t if cond is None else (cond | t)
    if cond is None:
        cond = False
    # a member object must come back exactly for top-level tag values
    want_member = cond
    if is_member:
        bad = ~want_member if isinstance(want_member, S.SBool) else (not want_member)
    else:
        bad = want_member
    m = c.sat(bad.e if isinstance(bad, S.SBool) else z3.BoolVal(bool(bad)))
    if m is not None:
        return {'what': 'member_identity', 'detail': 'from_int returns a tag member iff the value is a declared tag: violated',
                'x': S.model_int(m, 'x', e.width)}
    return None


def _py_enum_replay(u, mdl, e, x, what):
    mod = S.load_module(u.text, pycheck.custom_standins(mdl, symbolic=False), symbolic=False)
    try:
        cls = getattr(mod, e.name)
        top = [t.value for t in e.tags if isinstance(t, M.TagValue)]
        valid = bool(mdl.enum_valid(e.name, x))
        try:
            r = cls.from_int(x)
        except mod.EnumValueError:
            return what == 'rejects_declared' and valid
        except Exception:  # noqa
            return what == 'crash'
        if not valid:
            return what == 'accepts_undeclared'
        if int(r) != x:
            return what == 'value_changed'
        if isinstance(r, cls) != (x in top):
            return what == 'member_identity'
        return False
    finally:
        S.unload_module(mod)


def main(tier, seed):
    os.environ['VERIF_TIER_EFF'] = tier
    t0 = time.time()
    out = Outcome(PROP)
    items = rust_leg(tier, seed, out)
    log(f'[C15] rust leg: {len(items)} enum harnesses')
    info = {'descriptions_in_corpus': len({i.unit.desc_id for i in items}), 'gen_failed_known': {}, 'beyond_cap': [],
            'unsupported': [], 'candidates': len(items)}
    cov = kcheck.run_and_judge(PROP, tier, seed, items, info, out, replay_rust, enum_arms, own_prefixes=('C15:',),
                               extract=lambda it, vals: [int.from_bytes(vals[0], 'little')] if vals else None)
    py = python_leg(tier, seed, out)
    log(f'[C15] python leg: {py["enums"]} enums, {py["paths"]} paths')
    cov['python_leg'] = py
    from . import llir
    cxx = llir.cxx_leg(tier, seed, out)
    cov['cxx_leg'] = cxx
    cov['functions_encoded'] = ['impl TryFrom<uN> for E', 'impl From<&E> for uN', 'impl From<E> for uN / iM / uM (widening)',
                                'python <E>.from_int', 'C++ IsValid<E>(uintN_t) (LLVM IR from clang -O1)']
    cov['bounds'] = 'none for Rust and C++ (the whole backing integer is symbolic); python: every w-bit integer'
    cov['evaluations'] = cov['evaluations'] + py['paths'] + cxx.get('queries', 0)
    cov['distinct_nontrivial'] = cov['distinct_nontrivial'] + py['enums'] + cxx.get('enums', 0)
    write_evidence(PROP, tier, seed, 'model_checking', cov,
                   ['membership predicate printed from our own model of the description',
                    'python: from_int is decided for integers below 2^width (the generated parsers only pass masked values)'],
                   time.time() - t0, len(out.violations))
    return out.finish()
