"""E-KANI over pure integer kernels of pdl-compiler (public API, path dependency, no hooks)."""
from __future__ import annotations

import os
import shutil

from . import kanirun
from .build import REPO, VERIF, WORK, TARGET

TOML = '''[package]
name = "pdlkernels"
version = "0.0.0"
edition = "2021"
publish = false

[dependencies]
pdl-compiler = { path = "%s/pdl-compiler" }

[lints.rust]
unexpected_cfgs = { level = "allow", check-cfg = ['cfg(kani)'] }

[workspace]
''' % REPO


def run(filters, timeout=600):
    d = os.path.join(WORK, 'kani', 'kernels')
    os.makedirs(os.path.join(d, 'src'), exist_ok=True)
    with open(os.path.join(d, 'Cargo.toml'), 'w') as f:
        f.write(TOML)
    shutil.copy(os.path.join(REPO, 'Cargo.lock'), os.path.join(d, 'Cargo.lock'))
    shutil.copy(os.path.join(VERIF, 'kernels', 'lib.rs'), os.path.join(d, 'src', 'lib.rs'))
    os.makedirs(os.path.join(d, '.cargo'), exist_ok=True)
    with open(os.path.join(d, '.cargo', 'config.toml'), 'w') as f:
        f.write('[net]\noffline = true\n')
    res, text = kanirun.cargo_kani(d, os.path.join(TARGET, 'kani', 'kernels'), filters, jobs=4, harness_timeout=timeout,
                                   total_timeout=3600)
    with open(os.path.join(d, 'kani.log'), 'w') as f:
        f.write(text)
    return res, text
