"""C03 — the Rust encoder emits exactly the reference wire format (E-KANI, differential)."""
from __future__ import annotations

import os
import time

from . import kcheck, venc
from .common import Outcome, write_evidence, log

PROP = 'C03'
QUOTAS = {
    'quick': {'cheap': 1, 'medium': 2, 'heavy': 0, 'F1:cheap': 10, 'F2:medium': 6, 'F6:cheap': 1, 'R:cheap': 3, 'R:medium': 4},
    'thorough': {'cheap': 150, 'medium': 90, 'heavy': 16, 'F1:cheap': 500, 'F2:medium': 140, 'R:cheap': 60,
                 'R:medium': 70, 'R:heavy': 16},
}


def run(prop, kind, tier, seed, quotas, own_prefixes, clauses, want=None, extra_cov=None, level='translation_validation',
        default_checks_are_mine=False, post=None):
    os.environ['VERIF_TIER_EFF'] = tier
    t0 = time.time()
    out = Outcome(prop)
    want = want or (lambda mdl, u, t, d: [kind])
    items, info = kcheck.gather(tier, seed, want, quotas, out=out)
    K = 2 if tier == 'quick' else 3
    for it in items:
        it.K = K
    log(f'[{prop}] {len(items)} harnesses selected of {info["candidates"]} candidates')
    cov = kcheck.run_and_judge(prop, tier, seed, items, info, out, venc.make_replay(clauses), venc.value_arms,
                               own_prefixes=own_prefixes, extract=venc.extract_words, inner_fn=venc.rf_text,
                               default_checks_are_mine=default_checks_are_mine)
    cov['value_bounds'] = {'array_elements_max': K, 'payload_octets_max': K,
                           'scalars': 'every value of the backing integer type (in range and out of range)'}
    cov['disagreements_checked'] = cov['failed']
    if extra_cov:
        cov.update(extra_cov)
    if post:
        post(out, cov)
    write_evidence(prop, tier, seed, level, cov,
                   ['values are drawn as arbitrary u64 words (kani::any) through the reference value type and rebuilt as generated values',
                    'enum / custom-field values that the generated TryFrom refuses cannot be constructed and are skipped',
                    'ArrBuf (heap-free BufMut) is the output buffer; Vec/BytesMut paths are covered by C18',
                    'reference encoder validated on the canonical vectors; Rust rendering cross-checked with the Python rendering on every replay'],
                   time.time() - t0, len(out.violations))
    return out.finish()


def main(tier, seed):
    return run(PROP, 'c03', tier, seed, QUOTAS[tier], ('C03:',), ('encode',),
               extra_cov={'functions_encoded': ['<T>::encode (generated, incl. encode_partial through parents)', '<T>::encoded_len',
                                                'bytes::BufMut for ArrBuf', 'rf::ref_encode_<T>', 'rf::ref_wf_<T>', 'rf::build_<T>']})
