"""C07 — all backends agree on the wire format: Rust <-> Python only, by transitivity through the
common reference (E-KANI: Rust == ref; E-PYSYM: Python == ref; one layout plan, two renderings that
are cross-validated).  The C++ and Java legs are NOT decided (DESIGN.md §4 C07, §5)."""
from __future__ import annotations

import os
import random
import time

from . import c04, c13, corpus, kcheck, pyrun, venc
from .common import Outcome, write_evidence, log
from .kcheck import KItem

PROP = 'C07'
QUOTAS = {
    'quick': {'cheap': 1, 'medium': 1, 'heavy': 0, 'F1:cheap': 5, 'F2:medium': 4, 'F3:medium': 2, 'F4:medium': 2, 'R:cheap': 2, 'R:medium': 2},
    'thorough': {'cheap': 60, 'medium': 40, 'heavy': 4, 'F1:cheap': 200, 'F2:medium': 80, 'R:cheap': 40, 'R:medium': 40},
}


def main(tier, seed):
    os.environ['VERIF_TIER_EFF'] = tier
    t0 = time.time()
    out = Outcome(PROP)
    common_ids = {d.id for d in corpus.corpus(tier, seed) if d.rust and d.python}

    def want(mdl, u, t, d):
        if d.id not in common_ids and d.family != 'R':
            return []
        from .pyrun import py_supported
        if not py_supported(mdl, t):
            return []
        return ['c03', 'c04']
    items, info = kcheck.gather(tier, seed, want, QUOTAS[tier], out=out)
    if tier == 'quick':
        items = [it for it in items if not it.unit.desc_id.startswith(('f5_odd', 'f2_static', 'f4_tlv')) or it.kind == 'c04'][:70]
    for it in items:
        it.K = 2
    log(f'[C07] rust side: {len(items)} harnesses on the common corpus')
    vrep = venc.make_replay(('encode',))

    def replay(runner, it: KItem, inp):
        return c04.replay_native(runner, it, inp) if it.kind == 'c04' else vrep(runner, it, inp)

    def extract(it: KItem, vals):
        return kcheck.decode_input_from_vals(vals, it.L) if it.kind == 'c04' else venc.extract_words(it, vals)
    cov = kcheck.run_and_judge(PROP, tier, seed, items, info, out, replay, venc.value_arms, own_prefixes=('C03:', 'C04:'),
                               extract=extract, inner_fn=venc.rf_text)
    # python side on the same descriptions
    used = {it.unit.desc_id.split('#')[0] for it in items}
    # inheritance chains and core descriptions of the common corpus are always on the Python side (cheap)
    pdescs = [d for d in corpus.corpus(tier, seed, backend='python')
              if d.id in used or d.family == 'R' or (d.rust and (d.family == 'F4' or d.core))]
    pdescs = [d for d in pdescs if d.family != 'R'] + ([d for d in pdescs if d.family == 'R'] if tier != 'quick' else [])
    results = pyrun.run_corpus(pdescs, 12 if tier == 'quick' else 20, ('parse', 'serialize'), ser_limit=8, budget_s=200)
    pcov = c13.summarize(results, out, prop=PROP)
    cov['python_side'] = {k: pcov[k] for k in ('programs', 'types', 'paths', 'queries', 'accepting_paths', 'rejecting_paths',
                                               'disagreements_checked', 'distinct_nontrivial')}
    cov['programs'] = len(used)
    cov['disagreements_checked'] = cov['failed'] + pcov['disagreements_checked']
    cov['evaluations'] = cov['evaluations'] + pcov['paths']
    cov['legs_decided'] = 'Rust <-> Python'
    cov['legs_not_decided'] = 'C++ and Java (no symbolic engine reaches the generated code, DESIGN §5)'
    cov['functions_encoded'] = ['<T>::encode, <T>::decode (generated Rust)', '<T>.parse_all, <T>.serialize (generated Python)',
                                'reference decode/encode (one layout plan, Rust and Python renderings)']
    write_evidence(PROP, tier, seed, 'translation_validation', cov,
                   ['agreement is decided by transitivity: Rust == reference and Python == reference on the common corpus and bounds',
                    'known Python findings of C13 apply to this property as well and are listed for it'],
                   time.time() - t0, len(out.violations))
    return out.finish()
