"""C18 — pdl-runtime Packet trait: the provided methods obey their laws (E-KANI)."""
from __future__ import annotations

import os
import re
import time

from . import kcheck, venc
from .common import Outcome, write_evidence, log
from .kcheck import KItem
from .rsreplay import NativeRunner

PROP = 'C18'
QUOTAS = {
    'quick': {'cheap': 1, 'medium': 0, 'heavy': 0, 'F1:cheap': 4, 'F2:medium': 3, 'F4:medium': 2, 'F7:cheap': 2,
              'R:cheap': 2, 'R:medium': 2},
    'thorough': {'cheap': 30, 'medium': 20, 'heavy': 2, 'F1:cheap': 60, 'F2:medium': 40, 'F7:cheap': 12, 'R:cheap': 30,
                 'R:medium': 30},
}

LAW_OPS = r'''
fn laws<T: Packet + std::fmt::Debug + PartialEq>(b: &[u8]) -> String {
    let d = T::decode(b);
    let f = T::decode_full(b);
    let mut s: &[u8] = b;
    let m = T::decode_mut(&mut s);
    let mut bad: Vec<String> = vec![];
    match &d {
        Ok((v, rest)) => {
            if rest.is_empty() { if f.as_ref().ok() != Some(v) { bad.push("decode_full!=decode".into()); } }
            else if f != Err(DecodeError::TrailingBytesError) { bad.push("decode_full no TrailingBytesError".into()); }
            if m.as_ref().ok() != Some(v) { bad.push("decode_mut value".into()); }
            if !(s.len() == rest.len() && s.as_ptr() == rest.as_ptr()) { bad.push("decode_mut remainder".into()); }
        }
        Err(e) => {
            if f.as_ref().err() != Some(e) { bad.push("decode_full error".into()); }
            if m.as_ref().err() != Some(e) { bad.push("decode_mut error".into()); }
            if !(s.len() == b.len() && (b.is_empty() || s.as_ptr() == b.as_ptr())) { bad.push("decode_mut moved on failure".into()); }
        }
    }
    if bad.is_empty() { "LAWS ok".to_string() } else { format!("LAWS violated: {}", bad.join("; ")) }
}
fn enc_laws<T: Packet>(v: &T) -> Vec<String> {
    let mut bad: Vec<String> = vec![];
    let mut a: Vec<u8> = Vec::new();
    let ra = v.encode(&mut a);
    let rv = v.encode_to_vec();
    let rb = v.encode_to_bytes();
    let mut pre: Vec<u8> = vec![0xAA, 0x55];
    let rp = v.encode(&mut pre);
    match &ra {
        Ok(()) => {
            if rv.as_ref().ok() != Some(&a) { bad.push("encode_to_vec".into()); }
            if rb.as_ref().ok().map(|x| x.to_vec()) != Some(a.clone()) { bad.push("encode_to_bytes".into()); }
            if rp.is_err() || pre.len() != a.len() + 2 || pre[0] != 0xAA || pre[1] != 0x55 || pre[2..] != a[..] { bad.push("append".into()); }
        }
        Err(e) => {
            if rv.as_ref().err() != Some(e) || rb.as_ref().err() != Some(e) || rp.as_ref().err() != Some(e) { bad.push("errors disagree".into()); }
        }
    }
    bad
}
'''


def arms(items):
    out = []
    seen = set()
    for it in items:
        if it.type in seen:
            continue
        seen.add(it.type)
        t, K = it.type, it.K
        out.append(f'        ("{t}", "laws") => laws::<{t}>(b),')
        out.append(f'''        ("{t}", "elaws") => {{
            let mut s = VecSrc {{ words, i: 0 }};
            let mut drawn = true;
            let rv = rf::draw_{t}(&mut s, {K}, {K}, &mut drawn);
            if !drawn {{ return "NODRAW".to_string(); }}
            match rf::build_{t}(&rv) {{ None => "NOBUILD".to_string(), Some(v) => {{ let bad = enc_laws(&v); if bad.is_empty() {{ "LAWS ok".to_string() }} else {{ format!("LAWS violated: {{}}", bad.join("; ")) }} }} }}
        }}''')
    return '\n'.join(out)


def replay_native(runner: NativeRunner, it: KItem, inp):
    obs, bad = {}, False
    for profile in ('dev', 'release'):
        if it.kind == 'c18d':
            r = runner.run(profile, it.type, 'laws', inp)
        else:
            r = runner.run(profile, it.type, 'elaws', b'', inp)
        obs[profile] = r[:300]
        if r.startswith('LAWS violated'):
            bad = True
    return bad, obs


def extract(it: KItem, vals):
    if it.kind == 'c18d':
        return kcheck.decode_input_from_vals(vals, it.L)
    return venc.extract_words(it, vals)


def main(tier, seed):
    os.environ['VERIF_TIER_EFF'] = tier
    t0 = time.time()
    out = Outcome(PROP)

    def want(mdl, u, t, d):
        has_opt = any(f.cond is not None for n in mdl.chain(t) for f in mdl.fields[n])
        if tier == 'quick' and (len(mdl.chain(t)) > 1 or mdl.children(t)):
            return []          # child / parent implementors: thorough tier
        if mdl.cost_class(t) == 'cheap' and not has_opt:
            return ['c18d', 'c18e']
        return ['c18d']
    items, info = kcheck.gather(tier, seed, want, QUOTAS[tier], out=out)
    if tier == 'quick':
        items = [it for it in items if not it.unit.desc_id.startswith(('f5_odd', 'f2_static', 'f2_derived', 'f4_tlv'))
                 or it.type in ('Opt24', 'One32')]
    kept = []
    for it in items:
        it.K = 1
        cap = 6 if it.cls != 'cheap' else 9
        mn = max(it.mdl.min_len(x) for x in [it.type] + it.mdl.descendants(it.type))
        if it.kind == 'c18d' and mn + 1 > cap:
            continue            # no accepting input within the C18 bound: the harness would be vacuous
        it.L = min(it.L, cap)
        kept.append(it)
    items = kept
    log(f'[C18] {len(items)} harnesses selected of {info["candidates"]} candidates')
    cov = kcheck.run_and_judge(PROP, tier, seed, items, info, out, replay_native, arms, own_prefixes=('C18:',),
                               extract=extract, inner_fn=venc.rf_text, runner_ops=LAW_OPS, harness_timeout=200 if tier == 'quick' else 600)
    cov['functions_encoded'] = ['pdl_runtime::Packet::decode_mut', 'pdl_runtime::Packet::decode_full',
                                'pdl_runtime::Packet::encode_to_vec', 'pdl_runtime::Packet::encode_to_bytes',
                                '<T>::decode / encode / encoded_len (generated)', 'BufMut for Vec<u8>, BytesMut, ArrBuf']
    write_evidence(PROP, tier, seed, 'model_checking', cov,
                   ['one harness per concrete Packet implementor (generic provided methods are monomorphised per type)',
                    'encode laws on decoded values and on drawn values with <= 1 array element / payload octet'],
                   time.time() - t0, len(out.violations))
    return out.finish()
