"""./check setup — build the tooling from files on disk, run the self-tests of the
reference model and of the engines, warm the builds."""
from __future__ import annotations

import sys
import time

from . import build
from .common import log


def main():
    t0 = time.time()
    build.build_pdlc()
    from . import selftest_ref
    s = selftest_ref.run()
    bad = s.pop('bad')
    log(f'[setup] reference vs canonical vectors: {s}')
    if bad:
        for b in bad[:10]:
            log(f'[setup] BAD {b}')
        print('setup: reference model disagrees with the canonical vectors')
        return 2
    from . import kanirun, kernels, selftest_engines
    kanirun.warm()
    build.build_driver()
    rc = selftest_engines.main()
    if rc:
        return rc
    # warm the kernels crate (pdl-compiler under Kani) and the native replay target dir
    kernels.run(['c12_source_location_empty_table'])
    log(f'[setup] done in {time.time() - t0:.0f}s')
    return 0
