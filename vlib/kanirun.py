"""E-KANI: build the out-of-tree harness crate and run cargo kani on it."""
from __future__ import annotations

import json
import os
import re
import shutil
import subprocess
import sys
import time
from dataclasses import dataclass, field as dfield
from typing import Dict, List, Optional

from .build import VERIF, REPO, TARGET, WORK, ENV, run, BuildError
from .common import log

SUPPORT = os.path.join(VERIF, 'kani_support', 'support.rs')

CARGO_TOML = '''[package]
name = "pdlk"
version = "0.0.0"
edition = "2021"
publish = false

[dependencies]
bytes = "1"
thiserror = "1"
pdl-runtime = { path = "%s/pdl-runtime" }

[lints.rust]
unexpected_cfgs = { level = "allow", check-cfg = ['cfg(kani)'] }

[workspace]
''' % REPO


@dataclass
class HarnessResult:
    name: str
    status: str                  # success | failed | timeout | error
    failed_checks: List[str] = dfield(default_factory=list)   # descriptions of failed properties
    unsat_covers: List[str] = dfield(default_factory=list)
    time_s: float = 0.0
    raw: str = ''
    n_props: int = 0
    n_failed: int = 0


def write_crate(crate_dir: str, modules: Dict[str, str], extra_lib: str = ''):
    """modules: module name -> full text of src/<name>.rs"""
    src = os.path.join(crate_dir, 'src')
    if os.path.isdir(src):
        shutil.rmtree(src)
    os.makedirs(src, exist_ok=True)
    with open(os.path.join(crate_dir, 'Cargo.toml'), 'w') as f:
        f.write(CARGO_TOML)
    shutil.copy(os.path.join(REPO, 'Cargo.lock'), os.path.join(crate_dir, 'Cargo.lock'))
    shutil.copy(SUPPORT, os.path.join(src, 'support.rs'))
    lib = ['#![allow(warnings)]', 'pub mod support;']
    for name, text in modules.items():
        with open(os.path.join(src, f'{name}.rs'), 'w') as f:
            f.write(text)
        lib.append(f'pub mod {name};')
    lib.append(extra_lib)
    with open(os.path.join(src, 'lib.rs'), 'w') as f:
        f.write('\n'.join(lib) + '\n')
    os.makedirs(os.path.join(crate_dir, '.cargo'), exist_ok=True)
    with open(os.path.join(crate_dir, '.cargo', 'config.toml'), 'w') as f:
        f.write('[net]\noffline = true\n')


def parse_output(text: str) -> Dict[str, HarnessResult]:
    """parse `cargo kani -j N --output-format terse` output: blocks are tagged `Thread k:`"""
    out: Dict[str, HarnessResult] = {}
    current: Dict[str, str] = {}          # thread -> harness short name
    # split into blocks starting with 'Thread N: ' (or, when sequential, 'Checking harness')
    blocks = re.split(r'(?m)^(?=Thread \d+: |Checking harness )', text)
    for blk in blocks:
        m = re.match(r'Thread (\d+): ', blk)
        tid = m.group(1) if m else '-'
        body = blk[m.end():] if m else blk
        cm = re.match(r'Checking harness (\S+?)\.\.\.', body)
        if cm:
            parts_ = cm.group(1).split('::')
            short = f'{parts_[0]}::{parts_[-1]}' if len(parts_) > 1 else parts_[0]
            current[tid] = short
            out[short] = HarnessResult(short, 'error')
            body = body[cm.end():]
            if not body.strip():
                continue
        short = current.get(tid)
        if short is None:
            continue
        hr = out[short]
        hr.raw += body[-4000:]
        vm = re.search(r'VERIFICATION:- (SUCCESSFUL|FAILED)', body)
        if vm:
            hr.status = 'success' if vm.group(1) == 'SUCCESSFUL' else 'failed'
        if 'CBMC timed out' in body:
            hr.status = 'timeout'
        if 'run out of memory' in body:
            hr.status = 'oom'
        if re.search(r'std::bad_alloc|CBMC failed|Status: ERROR', body) and hr.status == 'failed':
            hr.status = 'error'
        for fm in re.finditer(r'Failed Checks: (.*)\n(?:\s*File: "(.*?)", line (\d+), in (\S+))?', body):
            d = fm.group(1).strip()
            if len(d) >= 2 and d[0] == '"' and d[-1] == '"':
                d = d[1:-1]          # custom assertion messages are printed quoted
            if fm.group(4):
                d += f' [in {fm.group(4)}]'
            hr.failed_checks.append(d)
        cv = re.search(r'\*\* (\d+) of (\d+) cover properties satisfied', body)
        if cv and cv.group(1) != cv.group(2):
            hr.unsat_covers.append(f'{cv.group(1)} of {cv.group(2)} covers satisfied')
        pm = re.search(r'\*\* (\d+) of (\d+) failed', body)
        if pm:
            hr.n_failed, hr.n_props = int(pm.group(1)), int(pm.group(2))
        tm = re.search(r'Verification Time: ([0-9.]+)s', body)
        if tm:
            hr.time_s = float(tm.group(1))
    return out


def cargo_kani(crate_dir: str, target_dir: str, harness_filters: Optional[List[str]] = None, jobs: int = 16,
               harness_timeout: int = 150, total_timeout: int = 3600, extra: List[str] = ()) -> (Dict[str, HarnessResult], str):
    cmd = ['cargo', 'kani', '--target-dir', target_dir, '-j', str(jobs), '--output-format', 'terse',
           '-Z', 'unstable-options', '--harness-timeout', f'{harness_timeout}s']
    for h in harness_filters or []:
        cmd += ['--harness', h]
    cmd += list(extra)
    env = dict(ENV)
    t = time.time()
    try:
        p = subprocess.run(cmd, cwd=crate_dir, env=env, capture_output=True, text=True, timeout=total_timeout)
        text = p.stdout + '\n' + p.stderr
    except subprocess.TimeoutExpired as ex:
        text = (ex.stdout or b'').decode(errors='replace') + '\n' + (ex.stderr or b'').decode(errors='replace')
        text += '\n[kanirun] TOTAL TIMEOUT\n'
    dt = time.time() - t
    res = parse_output(text)
    return res, text


def warm():
    """one warm build of the harness crate dependencies under Kani (setup)"""
    d = os.path.join(WORK, 'kani', 'warm')
    write_crate(d, {'m_warm': 'pub fn f(x: u8) -> u8 { x }\n#[cfg(kani)]\n#[kani::proof]\nfn warm() { let x: u8 = kani::any(); assert!(f(x) == x); }\n'})
    from concurrent.futures import ThreadPoolExecutor

    def one(shard):
        res, text = cargo_kani(d, shard_target(shard), jobs=1, total_timeout=1800)
        r = res.get('m_warm::warm')
        if r is None or r.status != 'success':
            raise BuildError('kani warm build failed:\n' + text[-3000:])
    # one crate dir per shard: cargo locks the package directory's Cargo.lock, not only the target dir
    shards = list(range(int(os.environ.get('VERIF_KANI_SHARDS', '8'))))
    for sh in shards:
        dd = os.path.join(WORK, 'kani', f'warm{sh}')
        write_crate(dd, {'m_warm': 'pub fn f(x: u8) -> u8 { x }\n#[cfg(kani)]\n#[kani::proof]\nfn warm() { let x: u8 = kani::any(); assert!(f(x) == x); }\n'})

    def one_dir(sh):
        dd = os.path.join(WORK, 'kani', f'warm{sh}')
        res, text = cargo_kani(dd, shard_target(sh), jobs=1, total_timeout=1800)
        r = res.get('m_warm::warm')
        if r is None or r.status != 'success':
            raise BuildError('kani warm build failed:\n' + text[-3000:])
    with ThreadPoolExecutor(4) as ex:
        list(ex.map(one_dir, shards))


def shard_target(i: int) -> str:
    return os.path.join(TARGET, 'kani', f's{i}')
