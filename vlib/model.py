"""Our own model of a PDL description (independent of pdlc's AST).

A description is a `File`: endianness + list of `Decl`.  The corpus generator
builds these objects directly; for the repository's own .pdl files a small
recursive-descent parser (written from doc/reference.md) produces them.
`to_pdl` prints the concrete syntax handed to the pdlc under test.
"""
from __future__ import annotations

import re
from dataclasses import dataclass, field as dfield
from typing import List, Optional, Tuple, Union


# --------------------------------------------------------------------------- enums
@dataclass
class TagValue:
    name: str
    value: int


@dataclass
class TagRange:
    name: str
    lo: int
    hi: int
    tags: List[TagValue] = dfield(default_factory=list)


@dataclass
class TagOther:
    name: str


Tag = Union[TagValue, TagRange, TagOther]


# --------------------------------------------------------------------------- fields
@dataclass
class Field:
    kind: str
    # kinds: scalar typedef array size count elemsize payload body fixed_scalar
    #        fixed_enum reserved padding group checksum_start
    name: Optional[str] = None        # scalar/typedef/array id
    width: Optional[int] = None       # scalar/size/count/elemsize/reserved/fixed_scalar/array elem width
    type_id: Optional[str] = None     # typedef / array element type / fixed_enum enum / group id
    count: Optional[int] = None       # static array count
    target: Optional[str] = None      # size/count/elemsize/checksum_start target ("_payload_", "_body_", id)
    modifier: Optional[int] = None    # size modifier of payload / array
    value: Optional[int] = None       # fixed scalar value / padding size (octets)
    tag: Optional[str] = None         # fixed enum tag
    cond: Optional[Tuple[str, int]] = None  # optional field: (flag id, value)
    constraints: List[Tuple[str, Union[int, str]]] = dfield(default_factory=list)  # group field


def scalar(name, width, cond=None):
    return Field('scalar', name=name, width=width, cond=cond)


def typedef(name, type_id, cond=None):
    return Field('typedef', name=name, type_id=type_id, cond=cond)


def array(name, width=None, type_id=None, count=None, modifier=None):
    return Field('array', name=name, width=width, type_id=type_id, count=count, modifier=modifier)


def size(target, width):
    return Field('size', target=target, width=width)


def count(target, width):
    return Field('count', target=target, width=width)


def elemsize(target, width):
    return Field('elemsize', target=target, width=width)


def payload(modifier=None):
    return Field('payload', modifier=modifier)


def body():
    return Field('body')


def fixed(value, width):
    return Field('fixed_scalar', value=value, width=width)


def fixed_enum(tag, type_id):
    return Field('fixed_enum', tag=tag, type_id=type_id)


def reserved(width):
    return Field('reserved', width=width)


def padding(octets):
    return Field('padding', value=octets)


def group(group_id, constraints=()):
    return Field('group', type_id=group_id, constraints=list(constraints))


# --------------------------------------------------------------------------- declarations
@dataclass
class Decl:
    kind: str  # enum packet struct group custom_field checksum test
    name: str
    width: Optional[int] = None          # enum / custom_field / checksum
    tags: List[Tag] = dfield(default_factory=list)
    parent: Optional[str] = None
    constraints: List[Tuple[str, Union[int, str]]] = dfield(default_factory=list)
    fields: List[Field] = dfield(default_factory=list)
    function: Optional[str] = None


def enum(name, width, tags):
    return Decl('enum', name, width=width, tags=list(tags))


def packet(name, fields, parent=None, constraints=()):
    return Decl('packet', name, fields=list(fields), parent=parent, constraints=list(constraints))


def struct(name, fields, parent=None, constraints=()):
    return Decl('struct', name, fields=list(fields), parent=parent, constraints=list(constraints))


def group_decl(name, fields):
    return Decl('group', name, fields=list(fields))


def custom_field(name, width=None):
    return Decl('custom_field', name, width=width, function=name)


@dataclass
class File:
    endianness: str  # 'little' | 'big'
    decls: List[Decl]
    name: str = ''

    def get(self, name) -> Decl:
        for d in self.decls:
            if d.name == name and d.kind != 'test':
                return d
        raise KeyError(name)

    def has(self, name) -> bool:
        return any(d.name == name and d.kind != 'test' for d in self.decls)

    def twin(self) -> 'File':
        import copy
        f = copy.deepcopy(self)
        f.endianness = 'big' if self.endianness == 'little' else 'little'
        return f

    def children(self, name) -> List[Decl]:
        return [d for d in self.decls if d.parent == name and d.kind in ('packet', 'struct')]


# --------------------------------------------------------------------------- printer
def _cons(cs):
    return ', '.join(f'{k} = {v}' for k, v in cs)


def field_to_pdl(f: Field) -> str:
    k = f.kind
    if k == 'scalar':
        s = f'{f.name}: {f.width}'
    elif k == 'typedef':
        s = f'{f.name}: {f.type_id}'
    elif k == 'array':
        t = f.width if f.width is not None else f.type_id
        if f.count is not None:
            n = str(f.count)
        elif f.modifier is not None:
            n = f'+{f.modifier}'
        else:
            n = ''
        s = f'{f.name}: {t}[{n}]'
    elif k == 'size':
        s = f'_size_({f.target}): {f.width}'
    elif k == 'count':
        s = f'_count_({f.target}): {f.width}'
    elif k == 'elemsize':
        s = f'_elementsize_({f.target}): {f.width}'
    elif k == 'payload':
        s = '_payload_' + (f': [+{f.modifier}]' if f.modifier is not None else '')
    elif k == 'body':
        s = '_body_'
    elif k == 'fixed_scalar':
        s = f'_fixed_ = {f.value} : {f.width}'
    elif k == 'fixed_enum':
        s = f'_fixed_ = {f.tag} : {f.type_id}'
    elif k == 'reserved':
        s = f'_reserved_: {f.width}'
    elif k == 'padding':
        s = f'_padding_[{f.value}]'
    elif k == 'group':
        s = f.type_id + (f' {{ {_cons(f.constraints)} }}' if f.constraints else '')
    elif k == 'checksum_start':
        s = f'_checksum_start_({f.target})'
    else:
        raise ValueError(k)
    if f.cond is not None:
        s += f' if {f.cond[0]} = {f.cond[1]}'
    return s


def decl_to_pdl(d: Decl) -> str:
    if d.kind == 'enum':
        lines = []
        for t in d.tags:
            if isinstance(t, TagValue):
                lines.append(f'    {t.name} = {t.value},')
            elif isinstance(t, TagRange):
                if t.tags:
                    inner = ' '.join(f'{x.name} = {x.value},' for x in t.tags)
                    lines.append(f'    {t.name} = {t.lo}..{t.hi} {{ {inner} }},')
                else:
                    lines.append(f'    {t.name} = {t.lo}..{t.hi},')
            else:
                lines.append(f'    {t.name} = ..,')
        return f'enum {d.name} : {d.width} {{\n' + '\n'.join(lines) + '\n}\n'
    if d.kind in ('packet', 'struct'):
        head = f'{d.kind} {d.name}'
        if d.parent:
            head += f' : {d.parent}'
            if d.constraints:
                head += f' ({_cons(d.constraints)})'
        body_ = ''.join(f'    {field_to_pdl(f)},\n' for f in d.fields)
        return f'{head} {{\n{body_}}}\n'
    if d.kind == 'group':
        body_ = ''.join(f'    {field_to_pdl(f)},\n' for f in d.fields)
        return f'group {d.name} {{\n{body_}}}\n'
    if d.kind == 'custom_field':
        w = f' : {d.width}' if d.width is not None else ''
        return f'custom_field {d.name}{w} "{d.function or d.name}"\n'
    if d.kind == 'checksum':
        return f'checksum {d.name} : {d.width} "{d.function or d.name}"\n'
    if d.kind == 'test':
        return ''
    raise ValueError(d.kind)


def to_pdl(f: File) -> str:
    return f'{f.endianness}_endian_packets\n\n' + '\n'.join(decl_to_pdl(d) for d in f.decls)


# --------------------------------------------------------------------------- parser (from doc/reference.md)
_TOKEN = re.compile(r'''
    (?P<ws>[ \t\r\n]+)
  | (?P<lc>//[^\n]*)
  | (?P<bc>/\*.*?\*/)
  | (?P<str>"[^"]*")
  | (?P<hex>0[xX][0-9a-fA-F]+)
  | (?P<int>[0-9]+)
  | (?P<id>[A-Za-z][A-Za-z0-9_]*|_[a-z_]+_)
  | (?P<dd>\.\.)
  | (?P<p>[{}()\[\]:,=+])
''', re.X | re.S)


def _tokenize(text):
    pos, out = 0, []
    while pos < len(text):
        m = _TOKEN.match(text, pos)
        if not m:
            raise SyntaxError(f'bad character at {pos}: {text[pos:pos+20]!r}')
        pos = m.end()
        k = m.lastgroup
        if k in ('ws', 'lc', 'bc'):
            continue
        v = m.group()
        if k == 'hex':
            out.append(('int', int(v, 16)))
        elif k == 'int':
            out.append(('int', int(v)))
        elif k == 'str':
            out.append(('str', v[1:-1]))
        elif k == 'id':
            out.append(('id', v))
        else:
            out.append(('p', v))
    out.append(('eof', None))
    return out


class _P:
    def __init__(self, toks):
        self.t, self.i = toks, 0

    def peek(self, k=0):
        return self.t[self.i + k]

    def next(self):
        x = self.t[self.i]
        self.i += 1
        return x

    def eat(self, v):
        if self.peek()[1] == v:
            self.i += 1
            return True
        return False

    def expect(self, v):
        x = self.next()
        if x[1] != v:
            raise SyntaxError(f'expected {v!r} got {x!r} at token {self.i}')

    def ident(self):
        x = self.next()
        if x[0] != 'id':
            raise SyntaxError(f'expected identifier got {x!r}')
        return x[1]

    def integer(self):
        x = self.next()
        if x[0] != 'int':
            raise SyntaxError(f'expected integer got {x!r}')
        return x[1]

    def constraint_list(self, close):
        cs = []
        while not self.eat(close):
            k = self.ident()
            self.expect('=')
            x = self.next()
            cs.append((k, x[1]))
            self.eat(',')
        return cs

    def field(self):
        x = self.peek()
        v = x[1]
        if v == '_checksum_start_':
            self.next(); self.expect('('); t = self.ident(); self.expect(')')
            f = Field('checksum_start', target=t)
        elif v == '_padding_':
            self.next(); self.expect('['); n = self.integer(); self.expect(']')
            f = padding(n)
        elif v in ('_size_', '_count_', '_elementsize_'):
            self.next(); self.expect('('); t = self.ident(); self.expect(')'); self.expect(':')
            w = self.integer()
            f = Field({'_size_': 'size', '_count_': 'count', '_elementsize_': 'elemsize'}[v], target=t, width=w)
        elif v == '_payload_':
            self.next()
            mod = None
            if self.eat(':'):
                self.expect('['); self.expect('+'); mod = self.integer(); self.expect(']')
            f = payload(mod)
        elif v == '_body_':
            self.next(); f = body()
        elif v == '_fixed_':
            self.next(); self.expect('=')
            a = self.next(); self.expect(':'); b = self.next()
            f = fixed(a[1], b[1]) if a[0] == 'int' else fixed_enum(a[1], b[1])
        elif v == '_reserved_':
            self.next(); self.expect(':'); f = reserved(self.integer())
        else:
            name = self.ident()
            if self.eat(':'):
                t = self.next()
                width = t[1] if t[0] == 'int' else None
                type_id = t[1] if t[0] == 'id' else None
                if self.eat('['):
                    cnt = mod = None
                    if self.eat('+'):
                        mod = self.integer()
                    elif self.peek()[0] == 'int':
                        cnt = self.integer()
                    self.expect(']')
                    f = array(name, width, type_id, cnt, mod)
                elif width is not None:
                    f = scalar(name, width)
                else:
                    f = typedef(name, type_id)
            else:
                cs = []
                if self.eat('{'):
                    cs = self.constraint_list('}')
                f = group(name, cs)
        if self.peek() == ('id', 'if'):
            self.next()
            k = self.ident(); self.expect('='); val = self.integer()
            f.cond = (k, val)
        return f

    def field_list(self):
        self.expect('{')
        fs = []
        while not self.eat('}'):
            fs.append(self.field())
            self.eat(',')
        return fs

    def tag(self):
        name = self.ident(); self.expect('=')
        if self.eat('..'):
            return TagOther(name)
        lo = self.integer()
        if self.eat('..'):
            hi = self.integer()
            tags = []
            if self.eat('{'):
                while not self.eat('}'):
                    n = self.ident(); self.expect('='); tags.append(TagValue(n, self.integer())); self.eat(',')
            return TagRange(name, lo, hi, tags)
        return TagValue(name, lo)

    def decl(self):
        kw = self.ident()
        if kw == 'enum':
            name = self.ident(); self.expect(':'); w = self.integer(); self.expect('{')
            tags = []
            while not self.eat('}'):
                tags.append(self.tag()); self.eat(',')
            return enum(name, w, tags)
        if kw in ('packet', 'struct'):
            name = self.ident(); parent = None; cs = []
            if self.eat(':'):
                parent = self.ident()
                if self.eat('('):
                    cs = self.constraint_list(')')
            return Decl(kw, name, parent=parent, constraints=cs, fields=self.field_list())
        if kw == 'group':
            name = self.ident()
            return group_decl(name, self.field_list())
        if kw in ('custom_field', 'checksum'):
            name = self.ident(); w = None
            if self.eat(':'):
                w = self.integer()
            fn = self.next()[1]
            return Decl(kw, name, width=w, function=fn)
        if kw == 'test':
            name = self.ident(); self.expect('{')
            while not self.eat('}'):
                self.next()
            return Decl('test', name)
        raise SyntaxError(f'unknown declaration {kw}')


def parse_pdl(text: str, name: str = '') -> File:
    p = _P(_tokenize(text))
    e = p.ident()
    assert e in ('little_endian_packets', 'big_endian_packets'), e
    decls = []
    while p.peek()[0] != 'eof':
        decls.append(p.decl())
    return File('little' if e.startswith('little') else 'big', decls, name)
