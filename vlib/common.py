"""Shared by all checks: evidence files, known findings, replay records, exit codes."""
from __future__ import annotations

import hashlib
import json
import os
import sys
import time
from typing import Dict, List, Optional

from .build import VERIF, OUT

EVIDENCE_DIR = os.path.join(OUT, 'evidence')
REPLAY_DIR = os.path.join(OUT, 'replays')
KNOWN = os.path.join(VERIF, 'known_findings.json')


def seed_from_env(default=0) -> int:
    try:
        return int(os.environ.get('VERIF_SEED', default))
    except ValueError:
        return default


def load_known(prop) -> List[dict]:
    if not os.path.exists(KNOWN):
        return []
    data = json.load(open(KNOWN))
    return [f for f in data.get('findings', []) if f['property'] == prop]


def match_known(known: List[dict], sig: Dict[str, str]) -> Optional[dict]:
    for k in known:
        ok = True
        for a, b in k['match'].items():
            if a == 'construct':
                ok = ok and b in (sig.get('constructs') or [])
            else:
                ok = ok and str(sig.get(a)) == str(b)
        if ok:
            return k
    return None


def write_replay(prop, record: dict) -> str:
    d = os.path.join(REPLAY_DIR, prop)
    os.makedirs(d, exist_ok=True)
    blob = json.dumps(record, sort_keys=True, indent=1)
    h = hashlib.sha1(blob.encode()).hexdigest()[:12]
    path = os.path.join(d, f'{h}.json')
    with open(path, 'w') as f:
        f.write(blob)
    return path


class Outcome:
    """collects what a check run found and turns it into stdout lines + exit code"""

    def __init__(self, prop):
        self.prop = prop
        self.known = load_known(prop)
        self.violations: List[str] = []      # replay paths
        self.known_hit: Dict[str, dict] = {}
        self.inconclusive: List[str] = []
        self.undecided: List[str] = []       # harnesses / paths that hit their time cap: coverage loss, not a verdict
        self.total = 0                       # number of obligations attempted (for the undecided ratio)
        self.unreproduced: List[str] = []
        self.notes: List[str] = []

    def violation(self, sig, record, reproduced=True):
        """a counterexample that was replayed against the real build"""
        if not reproduced:
            path = write_replay(self.prop, dict(record, reproduced=False))
            self.unreproduced.append(path)
            print(f'INCONCLUSIVE property={self.prop} counterexample did not reproduce natively replay={path}')
            return
        k = match_known(self.known, sig)
        if k is not None:
            self.known_hit.setdefault(k['id'], k)
            return
        path = write_replay(self.prop, dict(record, reproduced=True))
        self.violations.append(path)
        print(f'VIOLATION property={self.prop} replay={path}')
        sys.stdout.flush()

    def inconclusive_item(self, what):
        self.inconclusive.append(what)

    def undecided_item(self, what):
        """a time/memory cap was hit: never counted as held; tolerated up to 20 % of the obligations"""
        self.undecided.append(what)

    def finish(self) -> int:
        for k in self.known_hit.values():
            print(f'KNOWN-FINDING: property={self.prop} {k["what"]}')
        for w in self.inconclusive[:30]:
            print(f'INCONCLUSIVE property={self.prop} {w}')
        for w in self.undecided[:30]:
            print(f'UNDECIDED property={self.prop} {w}')
        if self.violations:
            return 1
        if self.inconclusive or self.unreproduced:
            return 2
        if self.undecided and len(self.undecided) > 0.2 * max(self.total, 1):
            print(f'INCONCLUSIVE property={self.prop} {len(self.undecided)} of {self.total} obligations hit their time cap')
            return 2
        return 0


def write_evidence(prop, tier, seed, level, coverage, assumptions, wall_s, violations):
    evdir = EVIDENCE_DIR
    if os.environ.get('VERIF_ONLY'):
        # debugging aid (corpus restricted by a regular expression): never overwrite the committed evidence
        evdir = os.path.join(os.path.dirname(EVIDENCE_DIR), 'work', 'evidence_only')
    os.makedirs(evdir, exist_ok=True)
    ev = {'property_id': prop, 'tier': tier, 'seed': int(seed), 'level': level, 'coverage': coverage,
          'assumptions': assumptions, 'wall_s': round(wall_s, 2), 'violations': int(violations)}
    path = os.path.join(evdir, f'{prop}.json')
    tmp = path + '.tmp'
    with open(tmp, 'w') as f:
        json.dump(ev, f, indent=1, sort_keys=True)
    os.replace(tmp, path)
    return path


def log(msg):
    sys.stderr.write(msg + '\n')
    sys.stderr.flush()
