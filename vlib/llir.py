"""E-LLIR: LLVM-IR -> z3 for the loop-free C++ leaf kernels IsValid<Enum>(uintN_t).

The header printed by pdlc is reduced to its IsValid functions (text extraction,
no rewriting of their bodies), compiled with `clang++ -O1 -S -emit-llvm`, and
every function is translated instruction by instruction into a z3 bit-vector
term; anything outside the supported integer subset makes the function
*unsupported* (inconclusive), never a pass.  The query per enum is
    exists v : IsValid(v) != member(v)           (unsat = holds for every v)
"""
from __future__ import annotations

import os
import re
import subprocess
import time
from typing import Dict, List, Optional

import z3

from . import corpus, gen, model as M
from .build import WORK, build_pdlc
from .common import Outcome, log
from .ref import Model


class Unsupported(Exception):
    pass


# --------------------------------------------------------------------------- IR parsing
class Fn:
    def __init__(self, name, params):
        self.name, self.params = name, params      # params: [(name, bits)]
        self.blocks: Dict[str, List[str]] = {}
        self.order: List[str] = []


def parse_ir(text: str) -> Dict[str, Fn]:
    fns = {}
    cur = None
    label = None
    for line in text.splitlines():
        m = re.match(r'define .*? i1 @(\w+)\((.*?)\)', line)
        if m and '{' in line:
            params = []
            for i, p in enumerate(m.group(2).split(',')):
                pm = re.match(r'\s*i(\d+)\b.*?(%[\w.]+)?\s*$', p.strip())
                if not pm:
                    raise Unsupported(f'parameter {p!r}')
                params.append((pm.group(2) or f'%{i}', int(pm.group(1))))
            cur = Fn(m.group(1), params)
            label = 'entry0'
            # unnamed entry block is numbered after the parameters
            cur.entry_alias = f'%{len(params)}'
            cur.blocks[label] = []
            cur.order.append(label)
            fns[cur.name] = cur
            continue
        if cur is None:
            continue
        if line.startswith('}'):
            cur = None
            continue
        lm = re.match(r'^([\w.]+):', line)
        if lm:
            label = lm.group(1)
            cur.blocks[label] = []
            cur.order.append(label)
            continue
        s = line.split(';')[0].strip()
        if s:
            cur.blocks[label].append(s)
    return fns


def _bits(ty):
    m = re.match(r'i(\d+)$', ty)
    if not m:
        raise Unsupported(f'type {ty}')
    return int(m.group(1))


def translate(fn: Fn):
    """returns (z3 args, z3 Bool result)"""
    env: Dict[str, z3.ExprRef] = {}
    args = []
    for name, bits in fn.params:
        v = z3.BitVec(f'arg_{fn.name}_{name.strip("%")}', bits)
        env[name] = v
        args.append(v)
    labels = fn.order

    def lab(x):
        x = x.strip().lstrip('%')
        if x not in fn.blocks:
            if '%' + x == fn.entry_alias:
                return 'entry0'
            raise Unsupported(f'label {x}')
        return x

    def val(tok, bits):
        tok = tok.strip()
        if tok.startswith('%'):
            if tok not in env:
                raise Unsupported(f'use before def {tok} (loop?)')
            return env[tok]
        if tok in ('true', 'false'):
            return z3.BitVecVal(1 if tok == 'true' else 0, 1)
        return z3.BitVecVal(int(tok), bits)

    reach = {l: z3.BoolVal(False) for l in labels}
    reach['entry0'] = z3.BoolVal(True)
    edge: Dict[tuple, z3.ExprRef] = {}
    rets = []
    for l in labels:
        ins_list = fn.blocks[l]
        # phis first need the edge conditions of predecessors, all earlier in a loop-free -O1 layout
        for ins in ins_list:
            m = re.match(r'(%[\w.]+) = phi (i\d+) (.*)', ins)
            if m:
                bits = _bits(m.group(2))
                r = None
                for vm in re.finditer(r'\[\s*([^,\]]+),\s*(%[\w.]+)\s*\]', m.group(3)):
                    pred = lab(vm.group(2))
                    if (pred, l) not in edge:
                        raise Unsupported('phi from a later block (loop)')
                    v = val(vm.group(1), bits)
                    r = v if r is None else z3.If(edge[(pred, l)], v, r)
                env[m.group(1)] = r
                continue
            m = re.match(r'(%[\w.]+) = icmp (\w+) (i\d+) ([^,]+), (.+)', ins)
            if m:
                bits = _bits(m.group(3))
                a, b = val(m.group(4), bits), val(m.group(5), bits)
                op = m.group(2)
                c = {'eq': a == b, 'ne': a != b, 'ult': z3.ULT(a, b), 'ule': z3.ULE(a, b), 'ugt': z3.UGT(a, b),
                     'uge': z3.UGE(a, b), 'slt': a < b, 'sle': a <= b, 'sgt': a > b, 'sge': a >= b}.get(op)
                if c is None:
                    raise Unsupported(f'icmp {op}')
                env[m.group(1)] = z3.If(c, z3.BitVecVal(1, 1), z3.BitVecVal(0, 1))
                continue
            m = re.match(r'(%[\w.]+) = (add|sub|and|or|xor|shl|lshr|mul)(?: nuw| nsw| disjoint| exact)* (i\d+) ([^,]+), (.+)', ins)
            if m:
                bits = _bits(m.group(3))
                a, b = val(m.group(4), bits), val(m.group(5), bits)
                op = m.group(2)
                env[m.group(1)] = {'add': a + b, 'sub': a - b, 'and': a & b, 'or': a | b, 'xor': a ^ b, 'shl': a << b,
                                   'lshr': z3.LShR(a, b), 'mul': a * b}[op]
                continue
            m = re.match(r'(%[\w.]+) = (zext|trunc|sext)(?: nneg| nuw| nsw)* (i\d+) (\S+) to (i\d+)', ins)
            if m:
                fb, tb = _bits(m.group(3)), _bits(m.group(5))
                a = val(m.group(4), fb)
                env[m.group(1)] = (z3.ZeroExt(tb - fb, a) if m.group(2) == 'zext' else
                                   z3.SignExt(tb - fb, a) if m.group(2) == 'sext' else z3.Extract(tb - 1, 0, a))
                continue
            m = re.match(r'(%[\w.]+) = select i1 ([^,]+), (i\d+) ([^,]+), i\d+ (.+)', ins)
            if m:
                bits = _bits(m.group(3))
                c = val(m.group(2), 1)
                env[m.group(1)] = z3.If(c == 1, val(m.group(4), bits), val(m.group(5), bits))
                continue
            m = re.match(r'br i1 ([^,]+), label (%[\w.]+), label (%[\w.]+)', ins)
            if m:
                c = val(m.group(1), 1) == 1
                for tgt, cond in ((lab(m.group(2)), c), (lab(m.group(3)), z3.Not(c))):
                    e = z3.And(reach[l], cond)
                    edge[(l, tgt)] = z3.Or(edge.get((l, tgt), z3.BoolVal(False)), e)
                    reach[tgt] = z3.Or(reach[tgt], e)
                continue
            m = re.match(r'br label (%[\w.]+)', ins)
            if m:
                tgt = lab(m.group(1))
                edge[(l, tgt)] = z3.Or(edge.get((l, tgt), z3.BoolVal(False)), reach[l])
                reach[tgt] = z3.Or(reach[tgt], reach[l])
                continue
            m = re.match(r'SWITCH (i\d+) (\S+) (%[\w.]+) ?(.*)', ins)
            if m:
                bits = _bits(m.group(1))
                v = val(m.group(2), bits)
                none = []
                for item in m.group(4).split():
                    cval, tgt = item.split(':')
                    tgt = lab(tgt)
                    c = v == z3.BitVecVal(int(cval), bits)
                    none.append(z3.Not(c))
                    e = z3.And(reach[l], c)
                    edge[(l, tgt)] = z3.Or(edge.get((l, tgt), z3.BoolVal(False)), e)
                    reach[tgt] = z3.Or(reach[tgt], e)
                tgt = lab(m.group(3))
                e = z3.And(reach[l], *none)
                edge[(l, tgt)] = z3.Or(edge.get((l, tgt), z3.BoolVal(False)), e)
                reach[tgt] = z3.Or(reach[tgt], e)
                continue
            m = re.match(r'ret i1 (.+)', ins)
            if m:
                rets.append(z3.And(reach[l], val(m.group(1), 1) == 1))
                continue
            raise Unsupported(f'instruction: {ins}')
    if not rets:
        raise Unsupported('no ret')
    return args, z3.Or(*rets)


def _join_switches(text: str) -> str:
    """rewrite `switch` (multi-line) into a chain the translator understands: we expand it into icmp/br"""
    out = []
    lines = text.splitlines()
    i = 0
    tmp = 0
    while i < len(lines):
        ln = lines[i]
        m = re.match(r'\s*switch (i\d+) ([^,]+), label (%[\w.]+) \[', ln)
        if not m:
            out.append(ln)
            i += 1
            continue
        ty, v, default = m.group(1), m.group(2).strip(), m.group(3)
        cases = []
        i += 1
        while not lines[i].strip().startswith(']'):
            cm = re.match(r'\s*(i\d+) (-?\d+), label (%[\w.]+)', lines[i])
            cases.append((cm.group(2), cm.group(3)))
            i += 1
        i += 1
        # one block cannot hold several terminators: emit a synthetic select-free encoding using a
        # dedicated pseudo-instruction understood below
        out.append(f'  SWITCH {ty} {v} {default} ' + ' '.join(f'{c}:{t}' for c, t in cases))
    return '\n'.join(out)


def translate_with_switch(fn: Fn):
    return translate(fn)


# --------------------------------------------------------------------------- the C++ leg of C15
def isvalid_functions(header: str) -> str:
    fns = re.findall(r'inline bool (IsValid\w+\(uint\d+_t value\) \{.*?\n\})', header, re.S)
    body = '#include <cstdint>\n' + '\n'.join('extern "C" bool ' + f for f in fns) + '\n'
    return body, [re.match(r'IsValid(\w+)\(', f).group(1) for f in fns]


def compile_ir(cpp: str, tag: str) -> str:
    d = os.path.join(WORK, 'llir')
    os.makedirs(d, exist_ok=True)
    src = os.path.join(d, f'{tag}.cpp')
    with open(src, 'w') as f:
        f.write(cpp)
    p = subprocess.run(['clang++', '-std=c++17', '-O1', '-S', '-emit-llvm', '-o', '-', src], capture_output=True, text=True,
                       timeout=120)
    if p.returncode != 0:
        raise Unsupported('clang failed: ' + p.stderr[-500:])
    return p.stdout


def check_enum(fn: Fn, mdl: Model, ename: str):
    """returns None if IsValid == member for every value, else a counterexample integer"""
    args, res = translate_with_switch(fn)
    if len(args) != 1:
        raise Unsupported('arity')
    v = args[0]
    bits = v.size()
    conds = []
    for t in mdl.decls[ename].tags:
        if isinstance(t, M.TagValue):
            conds.append(v == z3.BitVecVal(t.value, bits))
        elif isinstance(t, M.TagRange):
            conds.append(z3.And(z3.UGE(v, z3.BitVecVal(t.lo, bits)), z3.ULE(v, z3.BitVecVal(t.hi, bits))))
    member = z3.Or(*conds) if conds else z3.BoolVal(False)
    s = z3.Solver()
    s.add(res != member)
    r = s.check()
    if r == z3.unsat:
        return None
    if r == z3.unknown:
        raise Unsupported('solver unknown')
    return s.model().eval(v, model_completion=True).as_long()


def replay_cxx(cpp: str, ename: str, value: int, expect: bool, tag: str) -> bool:
    """compile the extracted functions natively and call IsValid on the counterexample"""
    d = os.path.join(WORK, 'llir')
    main = cpp + f'\n#include <cstdio>\nint main() {{ printf("%d\\n", (int)IsValid{ename}({value}ULL)); return 0; }}\n'
    src = os.path.join(d, f'{tag}_replay.cpp')
    exe = os.path.join(d, f'{tag}_replay')
    with open(src, 'w') as f:
        f.write(main)
    p = subprocess.run(['clang++', '-std=c++17', '-O0', '-o', exe, src], capture_output=True, text=True, timeout=120)
    if p.returncode != 0:
        return False
    r = subprocess.run([exe], capture_output=True, text=True, timeout=20)
    try:
        got = bool(int(r.stdout.strip()))
    except ValueError:
        return False
    return got != expect


def cxx_leg(tier, seed, out: Outcome, prop='C15'):
    stats = {'enums': 0, 'queries': 0, 'programs': 0, 'unsupported': [], 'solver_s': 0.0, 'samples': []}
    build_pdlc()
    descs = corpus.corpus(tier, seed, families=['F6', 'R'], backend='rust')
    descs = [d for d in descs if d.family == 'F6'] + [d for d in descs if d.family == 'R']
    if tier == 'quick':
        descs = [d for d in descs if d.family == 'R' or any(d.id.startswith(f'f6_w{w}_') for w in (1, 2, 3, 7, 8, 9, 16, 24, 32, 40, 63, 64))]
    for d in descs:
        if d.family == 'R':
            # the canonical file as the repo's C++ test uses it needs custom-field headers; only its enums matter here
            f = M.File(d.file.endianness, [x for x in d.file.decls if x.kind == 'enum'] +
                       [M.packet('Holder', [])], d.file.name)
            d = corpus.Desc(d.id + '_enums', f, 'R')
        g = gen.generate(d, 'cxx')
        for t, why in g.unexpected.items():
            out.inconclusive_item(f'{d.id}/{t}: pdlc failed to generate C++: {why[-200:]}')
        for u in g.units:
            mdl = Model(u.file)
            cpp, names = isvalid_functions(u.text)
            closed = [e.name for e in u.file.decls if e.kind == 'enum' and not mdl.enum_is_open(e.name)]
            missing = [e for e in closed if e not in names]
            for e in missing:
                out.inconclusive_item(f'{u.desc_id}/{e}: no IsValid function found for a closed enum')
            if not names:
                continue
            stats['programs'] += 1
            try:
                ir = _join_switches(compile_ir(cpp, re.sub(r'\W', '_', u.desc_id)))
                fns = parse_ir(ir)
            except Unsupported as ex:
                out.inconclusive_item(f'{u.desc_id}: {ex}')
                continue
            for e in names:
                t0 = time.time()
                try:
                    cex = check_enum(fns[f'IsValid{e}'], mdl, e)
                except (Unsupported, KeyError) as ex:
                    stats['unsupported'].append(f'{u.desc_id}/{e}: {ex}')
                    out.inconclusive_item(f'{u.desc_id}/IsValid{e}: not translatable: {ex}')
                    continue
                stats['solver_s'] += time.time() - t0
                stats['enums'] += 1
                stats['queries'] += 1
                if len(stats['samples']) < 3:
                    stats['samples'].append({'description': u.desc_id, 'function': f'IsValid{e}', 'verdict': 'holds' if cex is None else 'violated'})
                if cex is not None:
                    member = bool(mdl.enum_member(e, cex))
                    ok = replay_cxx(cpp, e, cex, member, re.sub(r'\W', '_', u.desc_id))
                    rec = {'property': prop, 'engine': 'E-LLIR', 'backend': 'cxx', 'desc': u.desc_id, 'type': e, 'x': cex,
                           'detail': f'IsValid{e}({cex}) != member({cex}) = {member}', 'pdl': u.pdl,
                           'sig': {'backend': 'cxx', 'kind': 'isvalid'}}
                    out.violation(rec['sig'], rec, reproduced=ok)
    stats['solver_s'] = round(stats['solver_s'], 2)
    return stats
