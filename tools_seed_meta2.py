#!/usr/bin/env python3
"""second batch of seeded changes (ids <P>-3, <P>-4): write seeded/<id>/meta.json from the table below, the
confirmation logs (/tmp/confirm_<P>.log) and the evaluation logs (/tmp/wt3_<P>/SEEDS/<k>/verif_<check>*.log).
The first batch is handled by tools_seed_meta.py and is not touched here."""
import json
import os
import re

HERE = os.path.dirname(os.path.abspath(__file__))

SEEDS = {
    'C01-3': ('C01', 'rust decoder: one-element static array guards on the count, not the octet size (same idea as C01-2, other edit)',
              'x: 32[1] / 24[1] / Enum16[1] and an input that ends inside the element'),
    'C01-4': ('C01', 'rust decoder: optional enum guard divides the width by 8 twice (guard `remaining() < 0`)',
              'an optional enum field, flag set, input ends before the enum value'),
    'C02-3': ('C02', 'rust encoder: array element treated as fixed-width from decl_size (ignores payload / inherited fields)',
              'array of structs with static own fields plus a sized payload (or derived structs), inside a child of a sized parent or '
              'followed by _padding_, at least one element with a non-empty payload'),
    'C02-4': ('C02', 'rust decoder: optional enum read (and guarded) at its backing integer width',
              'optional enum of width 24/40/48/56 that is present'),
    'C03-3': ('C03', 'rust encoder: _size_ over an enum array counts the backing integer octets per element',
              '_size_(x) over an array of a 24/40/48/56-bit enum, non-empty'),
    'C03-4': ('C03', 'rust encoder: struct-typed field contributes decl_size instead of total_size to packet_size',
              'a struct with its own payload (or a derived struct) as a field of a declaration whose length is recorded by a size field'),
    'C04-3': ('C04', 'rust decoder: payload offset-from-end prefers the static array size over its padded size',
              'unsized payload followed by a static-count array followed by a larger _padding_'),
    'C04-4': ('C04', 'rust encoder: optional enum sized by its backing integer in the size accounting (re-encode clause)',
              'present optional enum of 24/40/48/56 bits inside a declaration whose size is recorded by a size field elsewhere'),
    'C05-3': ('C05', 'rust encoder: flag consistency guard only emitted for mixed-polarity optional fields',
              'one flag guarding >= 2 optional fields with the same condition value, value with some present and some absent'),
    'C05-4': ('C05', 'rust encoder: encoded_len() counts the backing integer of an optional scalar',
              'optional scalar of width 24/40/48/56 that is present'),
    'C06-3': ('C06', 'rust specialize: size discriminant drops the payload size (same change as C06-1, written independently)',
              'two siblings with identical constraints, one of constant size and one with a payload, payload length != fixed fields'),
    'C06-4': ('C06', 'analyzer: duplicate-constraint check only looks at the direct parent',
              'chain of depth >= 3 where a field constrained at one level is constrained again two or more levels below'),
    'C13-3': ('C13', 'python: size property ignores padding on static-count arrays (same idea as C13-1, other edit)',
              'T[N] with a static count directly followed by a larger _padding_'),
    'C13-4': ('C13', 'python parser: static struct field sliced span[start:size] instead of span[start:end]',
              'a statically sized struct / custom field member that is not at offset 0 of its static run'),
    'C17-3': ('C17', 'python serializer: enum array elements always little-endian (octets passed where bits are expected)',
              'big-endian file, python backend, array of an enum of width >= 16'),
    'C17-4': ('C17', 'C++ runtime: write_be shifts from sizeof(T) instead of N',
              'C++ backend, big-endian file, chunk of 3/5/6/7 octets with a non-zero value'),
}

NOTES = {
    'C03-3': 'first MISSED (no enum array of non-native width behind a size field in the corpus); caught after `f2_en24_arrays` '
             '(EnArrSz / EnArrCnt) became a core description',
    'C04-4': 'the change breaks the re-encode clause only; C04 had delegated that clause to C02 + C03. The c04r harness '
             '(encode(decode_full(b)) == ref_encode(ref_decode(b))) was added and runs on the core pair OptChild in the quick tier',
    'C02-3': 'MISSED by the C02 quick command (arrays of payload-bearing / derived structs are heavy types, which carry only c03/c05 '
             'core pairs in the quick tier); the C03 quick command catches it (c03_Inner of f2_derived_elem, reproduced natively)',
    'C05-3': 'first MISSED twice: f5_shared_flag was not a core description; once core, c05_TwoSame still held on the mutant because '
             'draw_<T> derived the presence of every optional field from the one flag bit, so contradictory Option patterns were never '
             'drawn. Presence is now drawn independently per field after the first; caught (logs: verif_C05_before_corpus_extension, '
             'verif_C05_after_core_before_draw_fix, verif_C05)',
    'C06-3': 'MISSED, same reason as C06-1: every harness that involves a child with its own payload below an unsized parent payload '
             '(c06s/c06t of the parent, c06v of that child) does not finish under CBMC — re-measured in this session: c06s_P at input '
             'bound 3 did not finish in 900 s with the machine otherwise idle; reported as UNDECIDED, never as held',
    'C06-4': 'MISSED BY SCOPE: the change makes the analyzer accept an ill-formed description; every description of the corpus is '
             'well-formed, and rejection of ill-formed descriptions (C08) is not_applicable for this technique',
    'C13-4': 'first MISSED (no static struct field at a non-zero offset of a static run in the corpus); caught after '
             '`f7_static_offset` became a core description',
    'C17-4': 'MISSED BY SCOPE: C++ leg of C17 is not decided (DESIGN.md §4 C17, §5 C14)',
}


def main():
    for sid, (prop, what, needs) in SEEDS.items():
        d = os.path.join(HERE, 'seeded', sid)
        if not os.path.isdir(d):
            continue
        p, k = sid.split('-')
        k0 = int(k) - 2
        conf = ''
        try:
            for line in open(f'/tmp/confirm_{p}.log'):
                if line.startswith(f'{p}-{k0} '):
                    conf = line.strip()
        except OSError:
            pass
        runs = {}
        logdir = f'/tmp/wt3_{p}/SEEDS/{k0}'
        for fn in sorted(os.listdir(logdir)) if os.path.isdir(logdir) else []:
            m = re.match(r'verif_(C\d\d)(\S*)\.log', fn)
            if not m:
                continue
            text = open(os.path.join(logdir, fn)).read()
            viol = re.findall(r'^VIOLATION property=(\S+)', text, re.M)
            runs[m.group(1) + m.group(2)] = {
                'cmd': f'PDL_REPO=<worktree with patch applied> ./check {m.group(1)} --tier quick',
                'violations_reported': len(viol),
                'inconclusive_lines': len(re.findall(r'^INCONCLUSIVE', text, re.M)),
                'undecided_lines': len(re.findall(r'^UNDECIDED', text, re.M)),
                'detected': bool(viol)}
        meta = {
            'id': sid, 'breaks_property': prop, 'change': what, 'needs_to_manifest': needs,
            'files': {'patch': 'patch.diff', 'demonstration': 'demo/run.sh <repo root> (exit 0 = property holds on the demo input)',
                      'author_notes': 'AGENT_README.md'},
            'written_by': 'fresh sub-agent (second batch) given only the property text and a scratch worktree',
            'confirmed_by_me': {'applies_cleanly': 'demo_with=1' in conf, 'cargo_test_workspace_with_change': '203 passed, 0 failed' if '(203 passed 0 failed)' in conf else conf,
                                'demo_with_change': 'fails (exit 1)' if 'demo_with=1' in conf else conf,
                                'demo_without_change': 'passes (exit 0)' if 'demo_without=0' in conf else conf,
                                'how': 'scratch worktree under /tmp: git apply, cargo test --workspace --no-fail-fast --offline, demo/run.sh, '
                                       'git checkout -- ., demo/run.sh again', 'raw': conf},
            'checks_run_against_it': runs,
        }
        if sid in NOTES:
            meta['note'] = NOTES[sid]
        with open(os.path.join(d, 'meta.json'), 'w') as f:
            json.dump(meta, f, indent=1)
    print('meta written')


if __name__ == '__main__':
    main()
