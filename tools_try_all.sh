#!/bin/bash
# evaluation of all delivered seeds against the committed quick checks (scratch worktrees, PDL_REPO override)
cd "$(dirname "$0")"
for spec in "C01 1 C01" "C01 2 C01" "C04 1 C04" "C04 2 C04" "C02 1 C02" "C02 2 C02" "C03 1 C03" "C03 2 C03" "C05 1 C05" "C05 2 C05" "C13 1 C13" "C13 2 C13" \
            "C15 1 C15" "C15 2 C15" "C18 1 C18" "C18 2 C18" "C12 1 C12" "C12 2 C12" "C07 1 C07" "C07 2 C07" "C16 1 C16" "C16 2 C16" "C17 1 C17" "C17 2 C17" "C06 1 C06" "C06 2 C06"; do
  set -- $spec
  [ -f /tmp/wt_$1/SEEDS/$2/patch.diff ] || { echo "=== $1-$2 not delivered yet"; continue; }
  ./tools_try_seed.sh /tmp/wt_$1 /tmp/wt_$1/SEEDS/$2 $3
done
