#!/bin/bash
# baseline evaluation of all seeds delivered by the sub-agents against the committed checks
cd "$(dirname "$0")"
for spec in "C01 1 C01" "C01 2 C01" "C04 1 C04" "C04 2 C04" "C02 1 C02" "C02 2 C02" "C03 1 C03" "C03 2 C03" "C05 1 C05" "C05 2 C05" "C13 1 C13" "C13 2 C13"; do
  set -- $spec
  ./tools_try_seed.sh /tmp/wt_$1 /tmp/wt_$1/SEEDS/$2 $3
done
